(** Eng/Ctx.v – Context (state and const member functions) and
    Composition::{GetPreedit, GetCommitText, GetScriptText, GetPrompt}.
    Model only.  Ported from src/rime/context.cc and src/rime/composition.cc.

    The member functions that fire [update_notifier_] etc. live in Engine.v
    (signals are direct calls there); this file has the raw state updates and
    the read-only views.

    Undefined / throwing C++ operations do not stop the model: they set the
    sticky field [cx_err] (first error wins) and the computation continues with
    a harmless value; [Api.step] reports [ObsCrash] from then on. *)
From Coq Require Import List Arith NArith ZArith Bool.
From Coq.Strings Require Import Byte.
From RimeV Require Import Base.Bytes Eng.Keys Eng.Cand Eng.Menu Eng.Segm.
Import ListNotations.

Inductive err :=
| ErrSubstr      (* std::string::substr with pos > size (throws std::out_of_range) *)
| ErrNullDeref   (* member access through a null an<Candidate> *)
| ErrBadRange    (* std::copy(first, last) with first > last *)
| ErrFuel        (* a loop of the model ran out of fuel (never a C++ behaviour) *)
| ErrRecursion   (* KeyBinder::PerformKeyBinding re-entered ProcessKey deeper than the model's fuel: only without
                    the redirecting_ flag (a self-sending or cyclic binding then recurses until the stack is gone) *)
| ErrDangling.   (* CommitHistory::Push(composition, input) dereferences [last] after the record it
                    points to was evicted by kMaxRecords (heap use after free) *)

(** CommitHistory (commit_history.h/.cc), abstracted to what the modelled code
    reads of it: whether it is empty and, of the latest record, its type and
    whether its text ends with a decimal digit (punctuator.cc: is_after_number).
    [None] = empty. *)
Definition hrec := (bytes * bool)%type.
Definition hist := option hrec.

Record context := mkCtx {
  cx_input : bytes;
  cx_caret : nat;
  cx_comp : segmentation;
  cx_opts : list (bytes * bool);   (* map<string,bool>; absent = false *)
  cx_err : option err;
  cx_hist : hist;                  (* commit_history_ (abstracted) *)
  cx_conn : bool                   (* AsciiComposer::connection_ is connected to update_notifier_ (inline ascii mode) *)
}.

Definition ctx_with_input (c : context) (i : bytes) (k : nat) : context :=
  mkCtx i k (cx_comp c) (cx_opts c) (cx_err c) (cx_hist c) (cx_conn c).
Definition ctx_with_comp (c : context) (sg : segmentation) : context :=
  mkCtx (cx_input c) (cx_caret c) sg (cx_opts c) (cx_err c) (cx_hist c) (cx_conn c).
Definition ctx_with_opts (c : context) (o : list (bytes * bool)) : context :=
  mkCtx (cx_input c) (cx_caret c) (cx_comp c) o (cx_err c) (cx_hist c) (cx_conn c).
Definition ctx_with_hist (c : context) (h : hist) : context :=
  mkCtx (cx_input c) (cx_caret c) (cx_comp c) (cx_opts c) (cx_err c) h (cx_conn c).
Definition ctx_with_conn (c : context) (b : bool) : context :=
  mkCtx (cx_input c) (cx_caret c) (cx_comp c) (cx_opts c) (cx_err c) (cx_hist c) b.
Definition ctx_fail (c : context) (e : err) : context :=
  mkCtx (cx_input c) (cx_caret c) (cx_comp c) (cx_opts c)
        (match cx_err c with Some x => Some x | None => Some e end) (cx_hist c) (cx_conn c).
Definition ctx_check (c : context) (ok : bool) (e : err) : context := if ok then c else ctx_fail c e.

(** option names *)
Definition opt_auto_commit : bytes := [x5f;x61;x75;x74;x6f;x5f;x63;x6f;x6d;x6d;x69;x74].  (* "_auto_commit" *)
Definition opt_dumb : bytes := [x64;x75;x6d;x62].                                         (* "dumb" *)
Definition opt_soft_cursor : bytes := [x73;x6f;x66;x74;x5f;x63;x75;x72;x73;x6f;x72].      (* "soft_cursor" *)
Definition opt_vertical : bytes := [x5f;x76;x65;x72;x74;x69;x63;x61;x6c].                 (* "_vertical" *)
Definition opt_linear : bytes := [x5f;x6c;x69;x6e;x65;x61;x72].                           (* "_linear" *)
Definition opt_horizontal : bytes := [x5f;x68;x6f;x72;x69;x7a;x6f;x6e;x74;x61;x6c].       (* "_horizontal" *)
Definition opt_full_shape : bytes := [x66;x75;x6c;x6c;x5f;x73;x68;x61;x70;x65].           (* "full_shape" *)
Definition opt_ascii_mode : bytes := [x61;x73;x63;x69;x69;x5f;x6d;x6f;x64;x65].           (* "ascii_mode" *)
Definition opt_simplification : bytes := [x73;x69;x6d;x70;x6c;x69;x66;x69;x63;x61;x74;x69;x6f;x6e]. (* "simplification" *)
Definition opt_traditional : bytes := [x74;x72;x61;x64;x69;x74;x69;x6f;x6e;x61;x6c].      (* "traditional" *)
Definition opt_ascii_punct : bytes := [x61;x73;x63;x69;x69;x5f;x70;x75;x6e;x63;x74].      (* "ascii_punct" *)

Fixpoint opts_get (o : list (bytes * bool)) (name : bytes) : bool :=
  match o with
  | [] => false
  | (n, v) :: r => if bytes_eqb n name then v else opts_get r name
  end.
Fixpoint opts_set (o : list (bytes * bool)) (name : bytes) (v : bool) : list (bytes * bool) :=
  match o with
  | [] => [(name, v)]
  | (n, v') :: r => if bytes_eqb n name then (n, v) :: r else (n, v') :: opts_set r name v
  end.
Definition get_option (c : context) (name : bytes) : bool := opts_get (cx_opts c) name.

(** [Context::IsComposing] *)
Definition is_composing (c : context) : bool :=
  negb (match cx_input c with [] => true | _ => false end) || negb (sg_empty (cx_comp c)).

(** [Context::HasMenu] *)
Definition has_menu (c : context) : bool :=
  match sg_back (cx_comp c) with
  | None => false
  | Some g => match s_menu g with Some m => negb (menu_empty m) | None => false end
  end.

(** [Context::GetSelectedCandidate] *)
Definition ctx_selected_cand (c : context) : option cand :=
  match sg_back (cx_comp c) with None => None | Some g => selected_cand g end.

(** [Composition::GetPrompt] *)
Definition comp_prompt (sg : segmentation) : bytes :=
  match sg_back sg with None => [] | Some g => s_prompt g end.

(** kCaretSymbol U+2038 *)
Definition caret_symbol : bytes := [xe2; x80; xb8].

Record preedit := mkPreedit { pe_text : bytes; pe_caret : nat; pe_sel_start : nat; pe_sel_end : nat; pe_ok : bool }.

(** loop state of [Composition::GetPreedit]; [None] stands for string::npos *)
Record pacc := mkPacc {
  pa_text : bytes;
  pa_caret : option nat;
  pa_sel_start : nat;
  pa_sel_end : option nat;
  pa_end : nat;
  pa_ok : bool
}.

Definition pacc_append (a : pacc) (t : bytes) : pacc :=
  mkPacc (pa_text a ++ t) (pa_caret a) (pa_sel_start a) (pa_sel_end a) (pa_end a) (pa_ok a).

(** one iteration of the [for] loop; [is_last] is [i == size() - 1] *)
Definition preedit_step (comp_input full_input : bytes) (caret_pos : nat) (is_last : bool)
           (a : pacc) (g : segment) : pacc :=
  let start := pa_end a in
  let a := if caret_pos =? start
           then mkPacc (pa_text a) (Some (length (pa_text a))) (pa_sel_start a) (pa_sel_end a) (pa_end a) (pa_ok a)
           else a in
  let cand := selected_cand g in
  if negb is_last then
    match cand with
    | Some c => mkPacc (pa_text a ++ c_text c) (pa_caret a) (pa_sel_start a) (pa_sel_end a) (c_end c) (pa_ok a)
    | None =>
      let en := s_end g in
      if has_tag TPhony (s_tags g)
      then mkPacc (pa_text a) (pa_caret a) (pa_sel_start a) (pa_sel_end a) en (pa_ok a)
      else let (t, ok) := substr_se comp_input start en in
           mkPacc (pa_text a ++ t) (pa_caret a) (pa_sel_start a) (pa_sel_end a) en (pa_ok a && ok)
    end
  else
    let sel_start := length (pa_text a) in
    let a := mkPacc (pa_text a) (pa_caret a) sel_start None (pa_end a) (pa_ok a) in
    let a :=
      match cand with
      | Some c =>
        match c_preedit c with
        | _ :: _ =>
          let en := c_end c in
          match find_byte byte_tab (c_preedit c) with
          | Some p =>
            let a := mkPacc (pa_text a ++ firstn p (c_preedit c)) (pa_caret a) sel_start None en (pa_ok a) in
            if (caret_pos =? en) && (en =? length full_input)
            then mkPacc (pa_text a ++ skipn (S p) (c_preedit c)) (Some (sel_start + p)) sel_start
                        (Some (sel_start + p)) en (pa_ok a)
            else a
          | None => mkPacc (pa_text a ++ c_preedit c) (pa_caret a) sel_start None en (pa_ok a)
          end
        | [] =>
          let en := s_end g in
          let (t, ok) := substr_se comp_input start en in
          mkPacc (pa_text a ++ t) (pa_caret a) sel_start None en (pa_ok a && ok)
        end
      | None =>
        let en := s_end g in
        let (t, ok) := substr_se comp_input start en in
        mkPacc (pa_text a ++ t) (pa_caret a) sel_start None en (pa_ok a && ok)
      end in
    match pa_sel_end a with
    | None => mkPacc (pa_text a) (pa_caret a) (pa_sel_start a) (Some (length (pa_text a))) (pa_end a) (pa_ok a)
    | Some _ => a
    end.

Fixpoint preedit_loop (comp_input full_input : bytes) (caret_pos : nat) (segs : list segment) (a : pacc) : pacc :=
  match segs with
  | [] => a
  | g :: rest =>
    let is_last := match rest with [] => true | _ => false end in
    preedit_loop comp_input full_input caret_pos rest (preedit_step comp_input full_input caret_pos is_last a g)
  end.

(** [Composition::GetPreedit(full_input, caret_pos, caret)] *)
Definition comp_preedit (sg : segmentation) (full_input : bytes) (caret_pos : nat) (caret : bytes) : preedit :=
  let comp_input := sg_input sg in
  let a := preedit_loop comp_input full_input caret_pos (segs_fwd sg) (mkPacc [] None 0 (Some 0) 0 true) in
  let a := if pa_end a <? length comp_input
           then mkPacc (pa_text a ++ skipn (pa_end a) comp_input) (pa_caret a) (pa_sel_start a) (pa_sel_end a)
                       (length comp_input) (pa_ok a)
           else a in
  let cpos := match pa_caret a with Some p => p | None => length (pa_text a) end in
  let text := if pa_end a <? length full_input then pa_text a ++ skipn (pa_end a) full_input else pa_text a in
  let sel_start := pa_sel_start a in
  let sel_end := match pa_sel_end a with Some e => e | None => 0 end in
  let prompt := caret ++ comp_prompt sg in
  match prompt with
  | [] => mkPreedit text cpos sel_start sel_end (pa_ok a)
  | _ :: _ =>
    mkPreedit (firstn cpos text ++ prompt ++ skipn cpos text) cpos
              (if cpos <? sel_start then sel_start + length prompt else sel_start)
              (if cpos <? sel_end then sel_end + length prompt else sel_end)
              (pa_ok a)
  end.

(** [Context::GetPreedit] *)
Definition ctx_preedit (c : context) : preedit :=
  comp_preedit (cx_comp c) (cx_input c) (cx_caret c)
               (if get_option c opt_soft_cursor then caret_symbol else []).

(** [Composition::GetCommitText]; the state is (result, end, ok) *)
Fixpoint commit_text_loop (comp_input : bytes) (segs : list segment) (acc : bytes * nat * bool) : bytes * nat * bool :=
  match segs with
  | [] => acc
  | g :: rest =>
    let '(res, _, ok) := acc in
    let acc' :=
      match selected_cand g with
      | Some c => (res ++ c_text c, c_end c, ok)
      | None =>
        if has_tag TPhony (s_tags g) then (res, s_end g, ok)
        else let (t, ok') := substr_se comp_input (s_start g) (s_end g) in (res ++ t, s_end g, ok && ok')
      end in
    commit_text_loop comp_input rest acc'
  end.
Definition comp_commit_text (sg : segmentation) : bytes * bool :=
  let '(res, en, ok) := commit_text_loop (sg_input sg) (segs_fwd sg) ([], 0, true) in
  (if en <? length (sg_input sg) then res ++ skipn en (sg_input sg) else res, ok).

(** the commit text of the segments BEFORE the current (last) one: what C03
    calls "the already confirmed text" when a candidate of the current segment
    is selected (same per-segment rule as GetCommitText) *)
Definition comp_confirmed_text (sg : segmentation) : bytes :=
  fst (fst (commit_text_loop (sg_input sg) (rev (tl (sg_segs sg))) ([], 0, true))).

(** [Context::GetCommitText] *)
Definition ctx_commit_text (c : context) : bytes * bool :=
  if get_option c opt_dumb then ([], true) else comp_commit_text (cx_comp c).

(** [boost::erase_first_copy(s, "\t")] *)
Fixpoint erase_first_tab (s : bytes) : bytes :=
  match s with
  | [] => []
  | x :: r => if Byte.eqb x byte_tab then r else x :: erase_first_tab r
  end.

(** [Composition::GetScriptText(keep_selection = true)]; state (result, end, ok) *)
Fixpoint script_text_loop (comp_input : bytes) (segs : list segment) (acc : bytes * nat * bool) : bytes * nat * bool :=
  match segs with
  | [] => acc
  | g :: rest =>
    let '(res, en_prev, ok) := acc in
    let cand := selected_cand g in
    let start := en_prev in
    let en := match cand with Some c => c_end c | None => s_end g end in
    let acc' :=
      match cand with
      | Some c =>
        if negb (match c_text c with [] => true | _ => false end) && status_geb (s_status g) SSelected
        then (res ++ c_text c, en, ok)
        else match c_preedit c with
             | _ :: _ => (res ++ erase_first_tab (c_preedit c), en, ok)
             | [] => let (t, ok') := substr_se comp_input start en in (res ++ t, en, ok && ok')
             end
      | None => let (t, ok') := substr_se comp_input start en in (res ++ t, en, ok && ok')
      end in
    script_text_loop comp_input rest acc'
  end.
Definition comp_script_text (sg : segmentation) : bytes * bool :=
  let '(res, en, ok) := script_text_loop (sg_input sg) (segs_fwd sg) ([], 0, true) in
  (if en <? length (sg_input sg) then res ++ skipn en (sg_input sg) else res, ok).

(** [Context::BeginEditing] (walks from the back) *)
Fixpoint begin_editing_rev (l : list segment) : list segment :=
  match l with
  | [] => []
  | g :: r =>
    match s_status g with
    | SConfirmed => l
    | SSelected => seg_with_tags g (tag_insert TSelectedBeforeEditing (s_tags g)) :: r
    | _ => g :: begin_editing_rev r
    end
  end.
Definition begin_editing (c : context) : context :=
  ctx_with_comp c (sg_with_segs (cx_comp c) (begin_editing_rev (sg_segs (cx_comp c)))).

(** [Context::ClearNonConfirmedComposition] (no notification) *)
Fixpoint drop_unselected (l : list segment) : list segment * bool :=
  match l with
  | g :: r => if status_geb (s_status g) SSelected then (l, false) else (fst (drop_unselected r), true)
  | [] => ([], false)
  end.
Definition clear_non_confirmed (c : context) : context * bool :=
  let (l, reverted) := drop_unselected (sg_segs (cx_comp c)) in
  if reverted then (ctx_with_comp c (fst (forward (sg_with_segs (cx_comp c) l))), true) else (c, false).

(** ---- CommitHistory (commit_history.cc) ---- *)
Definition is_digit_byte (b : byte) : bool := let n := N_of_byte b in ((48 <=? n) && (n <=? 57))%N.
(** [ends_with_digit] of punctuator.cc ([isdigit] of a byte >= 0x80 is false) *)
Definition ends_with_digit (t : bytes) : bool :=
  match t with [] => false | _ => is_digit_byte (last t x00) end.

(** [CommitHistory::Push(const KeyEvent&)] *)
Definition hist_push_key (h : hist) (k : key) : hist :=
  if (k_mod k =? 0)%Z then
    if ((k_code k =? XK_BackSpace) || (k_code k =? XK_Return))%Z then None
    else if ((32 <=? k_code k) && (k_code k <=? 126))%Z
         then Some (ty_thru, is_digit_byte (byte_of_N (Z.to_N (k_code k))))
         else h
  else h.

(** loop state of [CommitHistory::Push(const Composition&, const string&)]:
    the latest record, the pointer [last] as (type of the record it points to,
    number of records pushed after it – 0 = it is [back()]), [end], and two
    flags: no substr out of range, [last] never dereferenced after its record
    was popped (kMaxRecords = 20: a record with 20 younger ones is gone) *)
Record hacc := mkHacc {
  ha_back : hist; ha_last : option (bytes * nat); ha_end : nat; ha_ok : bool; ha_live : bool }.

Definition kMaxRecords : nat := 20.

Definition hacc_push (a : hacc) (ty txt : bytes) : hacc :=
  mkHacc (Some (ty, ends_with_digit txt))
         (match ha_last a with Some (t, age) => Some (t, S age) | None => None end)
         (ha_end a) (ha_ok a) (ha_live a).

(** [guard]: the shape of the source in which the raw branch also resets [last]
    (Gen/EngFacts.v: commit_history_guard); [false] = the code as it stands *)
Definition hist_step (guard : bool) (input : bytes) (a : hacc) (g : segment) : hacc :=
  match selected_cand g with
  | Some cd =>
    let live := match ha_last a with Some (_, age) => age <? kMaxRecords | None => true end in
    let same := match ha_last a with Some (t, _) => bytes_eqb t (c_type cd) | None => false end in
    let a1 :=
      if same then
        (* last->text += cand->text() *)
        let back := match ha_last a, ha_back a with
                    | Some (_, 0), Some (t, d) =>
                      Some (t, match c_text cd with [] => d | _ => ends_with_digit (c_text cd) end)
                    | _, b => b
                    end in
        mkHacc back (ha_last a) (ha_end a) (ha_ok a) (ha_live a && live)
      else
        let a' := hacc_push a (c_type cd) (c_text cd) in
        mkHacc (ha_back a') (Some (c_type cd, 0)) (ha_end a') (ha_ok a') (ha_live a && live) in
    let lst := if status_geb (s_status g) SConfirmed then None else ha_last a1 in
    mkHacc (ha_back a1) lst (c_end cd) (ha_ok a1) (ha_live a1)
  | None =>
    let (t, ok) := substr_se input (s_start g) (s_end g) in
    let a' := hacc_push a ty_raw t in
    mkHacc (ha_back a') (if guard then None else ha_last a') (s_end g) (ha_ok a && ok) (ha_live a')
  end.

(** result: the new abstract history, "no substr out of range", "no dangling [last]" *)
Definition hist_push_comp (guard : bool) (h : hist) (sg : segmentation) (input : bytes) : hist * bool * bool :=
  let a := fold_left (hist_step guard input) (segs_fwd sg) (mkHacc h None 0 true true) in
  let a := if ha_end a <? length input then hacc_push a ty_raw (skipn (ha_end a) input) else a in
  (ha_back a, ha_ok a, ha_live a).
