(** Eng/Cand.v – candidates, segment tags, byte-string helpers.  Model only.

    Ported from src/rime/candidate.h (the fields a session can observe:
    start, end, text, comment, preedit, type).  Candidate quality is not
    modelled: every modelled translator yields SimpleCandidates (quality 0). *)
From Coq Require Import List Arith NArith Bool.
From Coq.Strings Require Import Byte.
From RimeV Require Import Base.Bytes.
Import ListNotations.

Fixpoint bytes_eqb (a b : bytes) : bool :=
  match a, b with
  | [], [] => true
  | x :: a', y :: b' => Byte.eqb x y && bytes_eqb a' b'
  | _, _ => false
  end.

Definition mem_byte (b : byte) (l : bytes) : bool := existsb (Byte.eqb b) l.

(** [s.find(ch)] *)
Fixpoint find_byte (b : byte) (l : bytes) : option nat :=
  match l with
  | [] => None
  | x :: r => if Byte.eqb x b then Some 0 else option_map S (find_byte b r)
  end.

(** length of the common prefix (Segmentation::Reset's diff_pos) *)
Fixpoint common_prefix (a b : bytes) : nat :=
  match a, b with
  | x :: a', y :: b' => if Byte.eqb x y then S (common_prefix a' b') else 0
  | _, _ => 0
  end.

(** [s.substr(pos, en - pos)] with size_t arithmetic: throws std::out_of_range
    when [pos > size] (second component [false]); a wrapped-around length
    ([en < pos]) takes the rest of the string. *)
Definition substr_se (s : bytes) (pos en : nat) : bytes * bool :=
  if length s <? pos then ([], false)
  else if pos <=? en then (firstn (en - pos) (skipn pos s), true)
  else (skipn pos s, true).

(** segment tags: std::set<string> over the names the modelled code uses *)
Inductive tag := TAbc | TRaw | TPartial | TPaging | TPhony | TPlaceholder | TSelectedBeforeEditing
                 | TPunct | TPunctNumber.

Definition tag_eqb (a b : tag) : bool :=
  match a, b with
  | TAbc, TAbc | TRaw, TRaw | TPartial, TPartial | TPaging, TPaging | TPhony, TPhony
  | TPlaceholder, TPlaceholder | TSelectedBeforeEditing, TSelectedBeforeEditing
  | TPunct, TPunct | TPunctNumber, TPunctNumber => true
  | _, _ => false
  end.

Definition tags := list tag.
Definition has_tag (t : tag) (l : tags) : bool := existsb (tag_eqb t) l.
Definition tag_insert (t : tag) (l : tags) : tags := if has_tag t l then l else t :: l.
Definition tag_erase (t : tag) (l : tags) : tags := filter (fun x => negb (tag_eqb t x)) l.
Definition tags_union (a b : tags) : tags := fold_right tag_insert a b.

Record cand := mkCand {
  c_start : nat;
  c_end : nat;
  c_text : bytes;
  c_comment : bytes;
  c_preedit : bytes;
  c_type : bytes            (* Candidate::type(): "punct" for punct_translator's candidates *)
}.

(** what a translator is told about the segment it translates *)
Record seginfo := mkSegInfo {
  si_start : nat; si_end : nat; si_tags : tags;
  si_opts : list (bytes * bool)   (* the context's options at Query time (a translator may read them) *)
}.

(** candidate / commit-record type names *)
Definition ty_punct : bytes := [x70;x75;x6e;x63;x74].   (* "punct" *)
Definition ty_raw : bytes := [x72;x61;x77].             (* "raw" *)
Definition ty_thru : bytes := [x74;x68;x72;x75].        (* "thru" *)

(** byte constants *)
Definition byte_tab : byte := x09.
Definition byte_space : byte := x20.
