(** Eng/ShapeFacts.v – the model's shape formatter ([Engine.shape_outside], [Engine.shape_wide]) is the function
    ShapeFormatter::Format computes today: gen/eng_facts.py reads the body of Format in src/rime/gear/shape.cc statement
    by statement on every run (Gen/EngFacts.v: the two tests, the space literal, the subtraction and the three output
    bytes); [src_outside] / [src_wide] below evaluate those statements with the numbers found there ([char] is signed,
    [char(x)] wraps to a byte), and the theorem compares them with the model on every one of the 256 byte values. *)
From Coq Require Import List NArith ZArith Bool Lia.
From Coq.Strings Require Import Byte.
From RimeV Require Import Base.Bytes Eng.Engine Gen.EngFacts.
Import ListNotations.
Local Open Scope Z_scope.

(** the value of a [char] holding byte [b] *)
Definition signed_char (b : byte) : Z :=
  let n := Z.of_N (N_of_byte b) in if n <? 128 then n else n - 256.
(** [char(z)]: the byte a conversion to char stores *)
Definition to_char (z : Z) : byte := byte_of_N (Z.to_N (z mod 256)).

Definition src_outside (b : byte) : bool :=
  let ch := signed_char b in (ch <? shape_keep_below) || (shape_keep_above <? ch).
Definition src_wide (b : byte) : bytes :=
  let ch := signed_char b in
  if ch =? shape_space_char then map byte_of_N shape_space_bytes
  else if (shape_wide_above <? ch) && (ch <=? shape_wide_upto)
       then let ch := ch - shape_wide_sub in
            [byte_of_N shape_wide_lead; to_char (signed_char (byte_of_N (Z.to_N shape_wide_mid)) + ch / shape_wide_div);
             to_char (signed_char (byte_of_N (Z.to_N shape_wide_tail)) + ch mod shape_wide_rem)]
       else [b].

Definition bytes_eqb (x y : bytes) : bool := if list_eq_dec Byte.byte_eq_dec x y then true else false.

Theorem shape_model_is_source :
  shape_facts_recognised = true /\
  forall b, shape_outside b = src_outside b /\ shape_wide b = src_wide b.
Proof.
  split; [reflexivity|]. intros b. destruct b; split; vm_compute; reflexivity.
Qed.
