(** Eng/InvProofs.v – C02: the reported state is well-formed after every API
    call (an inductive invariant of [Api.step]), and the refutation of the same
    statement for the unchecked Context::DeleteCandidate. *)
From Coq Require Import List Arith NArith ZArith Bool Lia.
From Coq.Strings Require Import Byte.
From RimeV Require Import Base.Bytes Base.ListX Eng.Keys Eng.Cand Eng.Menu Eng.Segm Eng.Ctx Eng.Engine Eng.Procs
     Eng.Api Eng.Oracle Eng.Spec Eng.WfView Eng.Utf8Proofs.
Import ListNotations.

(** With the unchecked DeleteCandidate (the code before the repair) the
    statement is false: two candidates on the page, delete_candidate(2)
    returns True and get_context reports highlighted = num_candidates = 2.
    (NDEBUG semantics; on a Debug build the same call dereferences a null
    candidate in its DLOG line: [delete_unchecked_crashes].) *)
Definition refute_ops : list op := [OpKey 118 0; OpDelete 2].

Lemma wf_reported_refuted_unchecked :
  exists ops, existsb (fun o => negb (wf_obsb o))
                      (snd (run (synth_cfg_with false false false) oracle_translate ops)) = true.
Proof. exists refute_ops. vm_compute. reflexivity. Qed.

Lemma delete_unchecked_crashes :
  snd (run (synth_cfg_with false true false) oracle_translate [OpKey 120 0; OpKey XK_Delete kControlMask])
  = [snd (step (synth_cfg_with false true false) oracle_translate (init_state (synth_cfg_with false true false)) (OpKey 120 0));
     ObsCrash ErrNullDeref].
Proof. vm_compute. reflexivity. Qed.

(** The synthetic schemas meet the translator hypothesis of [wf_reported]:
    the oracle translator yields at most 40 candidates. *)
Lemma n_range_length k from : length (n_range k from) = k.
Proof. revert from. induction k; intros; cbn; [reflexivity | now rewrite IHk]. Qed.

Lemma flat_map_length_le {A B} (f : A -> list B) (l : list A) (b : nat) :
  (forall x, In x l -> length (f x) <= b) -> length (flat_map f l) <= length l * b.
Proof.
  induction l as [|x r IH]; intros H; cbn [flat_map length]; [lia|].
  rewrite app_length. pose proof (H x (or_introl eq_refl)). specialize (IH (fun y Hy => H y (or_intror Hy))). lia.
Qed.

Lemma oracle_translate_full_length input seg : length (oracle_translate_full input seg) <= 40.
Proof.
  unfold oracle_translate_full. destruct input as [|c0 r]; [cbn; lia|].
  destruct (Byte.eqb c0 x78); [cbn; lia|].
  match goal with |- length (flat_map ?f ?l) <= _ => 
    assert (Hl : length l <= 4);
    [| assert (Hf : forall x, In x l -> length (f x) <= 10);
       [| pose proof (flat_map_length_le f l 10 Hf); lia ] ]
  end.
  - destruct (Byte.eqb c0 x75 || Byte.eqb c0 x76); [cbn; lia|].
    rewrite !app_length. cbn [length].
    repeat match goal with |- context [if ?b then _ else _] => destruct b end; cbn [length]; lia.
  - intros L _. rewrite map_length, n_range_length.
    destruct (Byte.eqb c0 x75); [cbn; lia|]. destruct (Byte.eqb c0 x76); [cbn; lia|].
    destruct (Nat.eqb L (length (c0 :: r)));
      match goal with |- N.to_nat (_ + ?x mod ?k) <= _ => pose proof (N.mod_upper_bound x k ltac:(discriminate)) end; lia.
Qed.

Lemma oracle_translate_length input seg : length (oracle_translate input seg) <= 40.
Proof.
  unfold oracle_translate. pose proof (oracle_translate_full_length input seg).
  destruct (opts_get (si_opts seg) opt_verif_short); [rewrite firstn_length|]; lia.
Qed.

Lemma oracle_translate_incl input seg c : In c (oracle_translate input seg) -> In c (oracle_translate_full input seg).
Proof.
  unfold oracle_translate. destruct (opts_get (si_opts seg) opt_verif_short); [|auto].
  intros H. rewrite <- (firstn_skipn (Nat.div (length (oracle_translate_full input seg) + 1) 2)). apply in_or_app. left. exact H.
Qed.

(** The synthetic schemas also meet the hypothesis of the UTF-8 clause: for an
    ASCII input string every oracle candidate has a text that starts with a
    lead byte and an ASCII preedit. *)
Lemma N_of_byte_of_N n : (n < 256)%N -> N_of_byte (byte_of_N n) = n.
Proof.
  intros H. unfold N_of_byte, byte_of_N. destruct (Byte.of_N n) as [b|] eqn:E.
  - apply Byte.to_of_N in E. exact E.
  - apply Byte.of_N_None_iff in E. lia.
Qed.

Lemma oracle_ch_head b j r : starts_clean (oracle_ch b j ++ r) = true.
Proof.
  unfold oracle_ch. set (n := N_of_byte b).
  destruct ((n + j) mod 4)%N as [|[[p|p|]|[p|p|]|]]; cbn [app starts_clean]; try reflexivity.
  unfold is_cont_byte. pose proof (N.mod_upper_bound n 26 ltac:(discriminate)).
  rewrite N_of_byte_of_N by lia.
  replace (128 <=? 65 + n mod 26)%N with false by (symmetry; apply N.leb_gt; lia). reflexivity.
Qed.

Lemma ascii_preedit_clean pre :
  all_ascii pre ->
  starts_clean pre && match find_byte byte_tab pre with
                      | Some p => starts_clean (skipn (S p) pre)
                      | None => true
                      end = true.
Proof.
  intros H. rewrite (ascii_clean _ H). cbn [andb].
  destruct (find_byte byte_tab pre); [apply ascii_clean, all_ascii_skipn, H | reflexivity].
Qed.

Lemma join_spaces_ascii l : all_ascii l -> all_ascii (join_spaces l).
Proof.
  intros H. induction H as [|b r Hb Hr IH]; [constructor|]. cbn [join_spaces].
  destruct r as [|b' r']; [constructor; [exact Hb | constructor]|].
  constructor; [exact Hb|]. constructor; [reflexivity | exact IH].
Qed.

Lemma oracle_cand_clean input start L j : all_ascii input -> cand_clean (oracle_cand input start L j) = true.
Proof.
  intros H. unfold cand_clean, oracle_cand. cbn [c_text c_preedit].
  pose proof (all_ascii_firstn L _ H) as Hpre. set (pre := firstn L input) in *.
  assert (Ht : starts_clean (flat_map (fun b => oracle_ch b j) pre) = true).
  { destruct pre as [|b r]; [reflexivity|]. cbn [flat_map]. apply oracle_ch_head. }
  rewrite Ht. cbn [andb]. apply ascii_preedit_clean.
  destruct (j =? 0)%N; [apply join_spaces_ascii, Hpre|].
  destruct (j =? 1)%N; [|constructor].
  apply Forall_app; split; [apply all_ascii_firstn, Hpre|].
  apply Forall_app; split; [constructor; [reflexivity | constructor]|].
  apply Forall_app; split; [apply all_ascii_skipn, Hpre | constructor; [reflexivity | constructor]].
Qed.

Lemma oracle_translate_clean input seg :
  all_ascii input -> Forall (fun c => cand_clean c = true) (oracle_translate input seg).
Proof.
  intros H. apply Forall_forall. intros c Hc. apply oracle_translate_incl in Hc. revert c Hc. apply Forall_forall.
  unfold oracle_translate_full. destruct input as [|c0 r] eqn:Ei; [constructor|]. rewrite <- Ei in *.
  destruct (Byte.eqb c0 x78); [constructor|].
  apply Forall_forall. intros c Hc. apply in_flat_map in Hc as (L & _ & Hc).
  apply in_map_iff in Hc as (j & <- & _). apply oracle_cand_clean, H.
Qed.
