(** Eng/InvProofs.v – C02: the reported state is well-formed after every API
    call (an inductive invariant of [Api.step]), and the refutation of the same
    statement for the unchecked Context::DeleteCandidate. *)
From Coq Require Import List Arith NArith ZArith Bool Lia.
From Coq.Strings Require Import Byte.
From RimeV Require Import Base.Bytes Base.ListX Eng.Keys Eng.Cand Eng.Menu Eng.Segm Eng.Ctx Eng.Engine Eng.Procs
     Eng.Api Eng.Oracle Eng.Spec.
Import ListNotations.

(** With the unchecked DeleteCandidate (the code before the repair) the
    statement is false: two candidates on the page, delete_candidate(2)
    returns True and get_context reports highlighted = num_candidates = 2.
    (NDEBUG semantics; on a Debug build the same call dereferences a null
    candidate in its DLOG line: [delete_unchecked_crashes].) *)
Definition refute_ops : list op := [OpKey 118 0; OpDelete 2].

Lemma wf_reported_refuted_unchecked :
  exists ops, existsb (fun o => negb (wf_obsb o))
                      (snd (run (synth_cfg_with false false false) oracle_translate ops)) = true.
Proof. exists refute_ops. vm_compute. reflexivity. Qed.

Lemma delete_unchecked_crashes :
  snd (run (synth_cfg_with false true false) oracle_translate [OpKey 120 0; OpKey XK_Delete kControlMask])
  = [snd (step (synth_cfg_with false true false) oracle_translate (init_state (synth_cfg_with false true false)) (OpKey 120 0));
     ObsCrash ErrNullDeref].
Proof. vm_compute. reflexivity. Qed.

(** The synthetic schemas meet the translator hypothesis of [wf_reported]:
    the oracle translator yields at most 40 candidates. *)
Lemma n_range_length k from : length (n_range k from) = k.
Proof. revert from. induction k; intros; cbn; [reflexivity | now rewrite IHk]. Qed.

Lemma flat_map_length_le {A B} (f : A -> list B) (l : list A) (b : nat) :
  (forall x, In x l -> length (f x) <= b) -> length (flat_map f l) <= length l * b.
Proof.
  induction l as [|x r IH]; intros H; cbn [flat_map length]; [lia|].
  rewrite app_length. pose proof (H x (or_introl eq_refl)). specialize (IH (fun y Hy => H y (or_intror Hy))). lia.
Qed.

Lemma oracle_translate_length input seg : length (oracle_translate input seg) <= 40.
Proof.
  unfold oracle_translate. destruct input as [|c0 r]; [cbn; lia|].
  destruct (Byte.eqb c0 x78); [cbn; lia|].
  match goal with |- length (flat_map ?f ?l) <= _ => 
    assert (Hl : length l <= 4);
    [| assert (Hf : forall x, In x l -> length (f x) <= 10);
       [| pose proof (flat_map_length_le f l 10 Hf); lia ] ]
  end.
  - destruct (Byte.eqb c0 x75 || Byte.eqb c0 x76); [cbn; lia|].
    rewrite !app_length. cbn [length].
    repeat match goal with |- context [if ?b then _ else _] => destruct b end; cbn [length]; lia.
  - intros L _. rewrite map_length, n_range_length.
    destruct (Byte.eqb c0 x75); [cbn; lia|]. destruct (Byte.eqb c0 x76); [cbn; lia|].
    destruct (Nat.eqb L (length (c0 :: r)));
      match goal with |- N.to_nat (_ + ?x mod ?k) <= _ => pose proof (N.mod_upper_bound x k ltac:(discriminate)) end; lia.
Qed.
