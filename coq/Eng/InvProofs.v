(** Eng/InvProofs.v – C02: the reported state is well-formed after every API
    call (an inductive invariant of [Api.step]), and the refutation of the same
    statement for the unchecked Context::DeleteCandidate. *)
From Coq Require Import List Arith NArith ZArith Bool Lia.
From Coq.Strings Require Import Byte.
From RimeV Require Import Base.Bytes Base.ListX Eng.Keys Eng.Cand Eng.Menu Eng.Segm Eng.Ctx Eng.Engine Eng.Procs
     Eng.Api Eng.Oracle Eng.Spec.
Import ListNotations.

(** With the unchecked DeleteCandidate (the code before the repair) the
    statement is false: two candidates on the page, delete_candidate(2)
    returns True and get_context reports highlighted = num_candidates = 2.
    (NDEBUG semantics; on a Debug build the same call dereferences a null
    candidate in its DLOG line: [delete_unchecked_crashes].) *)
Definition refute_ops : list op := [OpKey 118 0; OpDelete 2].

Lemma wf_reported_refuted_unchecked :
  exists ops, existsb (fun o => negb (wf_obsb o))
                      (snd (run (synth_cfg_with false false false) oracle_translate ops)) = true.
Proof. exists refute_ops. vm_compute. reflexivity. Qed.

Lemma delete_unchecked_crashes :
  snd (run (synth_cfg_with false true false) oracle_translate [OpKey 120 0; OpKey XK_Delete kControlMask])
  = [snd (step (synth_cfg_with false true false) oracle_translate (init_state (synth_cfg_with false true false)) (OpKey 120 0));
     ObsCrash ErrNullDeref].
Proof. vm_compute. reflexivity. Qed.
