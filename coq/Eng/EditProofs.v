(** Eng/EditProofs.v – C05: the editing keys refine a text buffer with a caret.

    Simulation invariant [good]: the context has no error, the input consists
    of spelling letters, the caret is inside it, the options are the initial
    ones, and the composition is either empty (iff the input is empty) or ONE
    unselected segment starting at 0 with selected_index 0.  Under it
      - Selector::Home/End fall through, the selector has no other binding;
      - ReopenPreviousSelection / ReopenPreviousSegment are no-ops, so both
        BackSpace bindings reduce to PopInput;
      - Navigator::GoHome lands on 0;
      - CancelComposition = ClearPreviousSegment with back().start = 0 = Clear.
    The translator is arbitrary (a Section variable without hypotheses). *)
From Coq Require Import List Arith NArith ZArith Bool Lia.
From Coq.Strings Require Import Byte.
From RimeV Require Import Base.Bytes Base.ListX Eng.Keys Eng.Cand Eng.Menu Eng.Segm Eng.Ctx Eng.Engine Eng.Procs
     Eng.Api Eng.Oracle Eng.Spec Eng.KbFrame Gen.Keymaps.
Import ListNotations.

Definition letter (b : byte) : Prop := mem_byte b lower_alphabet = true.

Lemma letter_code b : letter b -> (97 <= Z.of_N (N_of_byte b) <= 122)%Z.
Proof. unfold letter. destruct b; vm_compute; intros H; try discriminate H; split; discriminate. Qed.

Lemma letter_not_delim b : letter b -> mem_byte b [x20; x27] = false.
Proof. unfold letter. destruct b; vm_compute; intros H; try discriminate H; reflexivity. Qed.

Lemma byte_of_code b : byte_of_N (Z.to_N (Z.of_N (N_of_byte b))) = b.
Proof. rewrite N2Z.id. apply byte_of_N_of_byte. Qed.

Lemma st_with_ctx_id s : st_with_ctx s (st_ctx s) = s.
Proof. destruct s; reflexivity. Qed.

Lemma common_prefix_le a b : common_prefix a b <= length b.
Proof.
  revert b. induction a as [|x a IH]; intros [|y b]; cbn [common_prefix length]; try lia.
  destruct (Byte.eqb x y); [specialize (IH b)|]; lia.
Qed.

Lemma letter_printable b : letter b -> printable b = true.
Proof. unfold letter. destruct b; vm_compute; intros H; try discriminate H; reflexivity. Qed.

(** the configurations of this file: the speller settings of the synthetic schemas (alphabet a-z,
    delimiters blank and apostrophe, no use_space), page size 5, and one of the two chains
      [speller, selector, navigator, editor] / [abc_segmentor, fallback_segmentor]
      [speller, punctuator, selector, navigator, editor] / [abc_segmentor, punct_segmentor, fallback_segmentor]
    the second under the hypothesis that no spelling letter is a key of the punctuation tables;
    everything else (editor flavour, punctuation tables, translators, source facts) is arbitrary *)
Definition no_letter_punct (cfg : config) : Prop :=
  forall b, letter b -> pd_assoc (cf_punct_half cfg) b = None /\ pd_assoc (cf_punct_full cfg) b = None.
(** round 4: each chain may carry ascii_composer in front of the processors and ascii_segmentor in front of the
    segmentors (their stock positions); [has_ac] / [has_as] say whether they do *)
Definition has_ac (cfg : config) : bool := match cf_processors cfg with PAsciiComposer :: _ => true | _ => false end.
Definition has_as (cfg : config) : bool := match cf_segmentors cfg with SgAscii :: _ => true | _ => false end.
Definition ac_pre (cfg : config) : list proc_id := if has_ac cfg then [PAsciiComposer] else [].
Definition as_pre (cfg : config) : list segm_id := if has_as cfg then [SgAscii] else [].
(** ... and key_binder between ascii_composer and the speller (the stock order), under the hypothesis that no binding
    accepts a key of the alphabet ([no_alphabet_binding]) *)
Definition is_kb (p : proc_id) : bool := match p with PKeyBinder => true | _ => false end.
Definition has_kb (cfg : config) : bool := existsb is_kb (cf_processors cfg).
Definition kb_pre (cfg : config) : list proc_id := if has_kb cfg then [PKeyBinder] else [].
Definition c05_code (code : Z) : Prop :=
  (97 <= code <= 122)%Z \/ In code [XK_BackSpace; XK_Delete; XK_KP_Left; XK_KP_Right; XK_Home; XK_End; XK_Escape].
Definition no_alphabet_binding (cfg : config) : Prop :=
  forall code, c05_code code -> kb_vector cfg (mkKey code 0) = [].
Definition edit_chain (cfg : config) : Prop :=
  (cf_processors cfg = ac_pre cfg ++ kb_pre cfg ++ [PSpeller; PSelector; PNavigator; PEditor] /\ cf_segmentors cfg = as_pre cfg ++ [SgAbc; SgFallback]) \/
  (cf_processors cfg = ac_pre cfg ++ kb_pre cfg ++ [PSpeller; PPunctuator; PSelector; PNavigator; PEditor] /\
   cf_segmentors cfg = as_pre cfg ++ [SgAbc; SgPunct; SgFallback] /\ no_letter_punct cfg).
Definition edit_cfg (cfg : config) : Prop :=
  cf_alphabet cfg = lower_alphabet /\ cf_delims cfg = [x20; x27] /\ cf_initials cfg = lower_alphabet /\
  cf_finals cfg = [] /\ cf_use_space cfg = false /\ cf_page_size cfg = 5%Z /\ cf_select_keys cfg = [] /\
  (has_kb cfg = true -> no_alphabet_binding cfg) /\
  edit_chain cfg.

Section Edit.
Variable cfg : config.
Variable translate : bytes -> seginfo -> list cand.
Hypothesis Hcfg : edit_cfg cfg.
Local Notation fluid := (cf_fluid cfg).
Let Halpha : cf_alphabet cfg = lower_alphabet := proj1 Hcfg.
Let Hdelims : cf_delims cfg = [x20; x27] := proj1 (proj2 Hcfg).
Let Hinitials : cf_initials cfg = lower_alphabet := proj1 (proj2 (proj2 Hcfg)).
Let Hfinals : cf_finals cfg = [] := proj1 (proj2 (proj2 (proj2 Hcfg))).
Let Husp : cf_use_space cfg = false := proj1 (proj2 (proj2 (proj2 (proj2 Hcfg)))).
Let Hpsz : cf_page_size cfg = 5%Z := proj1 (proj2 (proj2 (proj2 (proj2 (proj2 Hcfg))))).
Let Hsk : cf_select_keys cfg = [] := proj1 (proj2 (proj2 (proj2 (proj2 (proj2 (proj2 Hcfg)))))).
Let Hnab : has_kb cfg = true -> no_alphabet_binding cfg := proj1 (proj2 (proj2 (proj2 (proj2 (proj2 (proj2 (proj2 Hcfg))))))).
Let Hchain : edit_chain cfg := proj2 (proj2 (proj2 (proj2 (proj2 (proj2 (proj2 (proj2 Hcfg))))))).

(** the composition of a state reachable with the editing alphabet *)
Definition seg_ok (g : segment) : Prop :=
  s_start g = 0 /\ 0 < s_end g /\ s_status g = SGuess /\ s_sel g = 0%N.
Definition segs_ok (l : list segment) : Prop := l = [] \/ exists g, l = [g] /\ seg_ok g.

Definition init_opts : list (bytes * bool) := [(opt_auto_commit, negb fluid)].

Definition ctx_ok (c : context) : Prop :=
  cx_err c = None /\ Forall letter (cx_input c) /\ cx_caret c <= length (cx_input c)
  /\ cx_opts c = init_opts /\ segs_ok (sg_segs (cx_comp c))
  /\ (sg_segs (cx_comp c) = [] <-> cx_input c = []) /\ cx_conn c = false.

(** ---- the abc segmentor takes a run of letters whole ---- *)
Lemma abc_scan_letters l : Forall letter l -> forall first e, abc_scan cfg l first e = length l.
Proof.
  induction 1 as [|b l Hb Hl IH]; intros first e; [reflexivity|].
  cbn [abc_scan length]. rewrite Halpha, Hdelims, Hinitials, Hfinals.
  rewrite Hb. rewrite (letter_not_delim b Hb). cbn [mem_byte existsb negb andb orb].
  rewrite !andb_false_r. cbn [negb andb orb].
  now rewrite IH.
Qed.

(** ---- Reset keeps nothing or the one segment, if it ends inside the common prefix ---- *)
Lemma reset_input_segs sg ni :
  segs_ok (sg_segs sg) ->
  sg_input (reset_input sg ni) = ni /\
  (sg_segs (reset_input sg ni) = [] \/
   exists g, sg_segs (reset_input sg ni) = [g] /\ seg_ok g /\ s_end g <= length ni).
Proof.
  intros [Hnil | (g & Hg & Hok)]; unfold reset_input; rewrite ?Hnil, ?Hg; cbn [dispose].
  - cbn. auto.
  - destruct (common_prefix (sg_input sg) ni <? s_end g) eqn:E; cbn.
    + auto.
    + split; [reflexivity|]. right. exists g. repeat split; try apply Hok.
      apply Nat.ltb_ge in E. pose proof (common_prefix_le (sg_input sg) ni). lia.
Qed.

Definition fresh_seg (n : nat) : segment := seg_with_tags (new_segment 0 n) [TAbc].

Lemma calc_loop_unfold o h fuel caret sg :
  calc_loop cfg o h fuel caret sg =
  if has_finished sg then (sg, true)
  else match fuel with
       | 0 => (sg, false)
       | S f =>
         let start_pos := cur_start sg in
         let sg2 := seg_round cfg o h sg in
         if start_pos =? cur_end sg2 then (sg2, true)
         else if caret <=? start_pos then (sg2, true)
         else calc_loop cfg o h f caret (if has_finished sg2 then sg2 else fst (forward sg2))
       end.
Proof. destruct fuel; reflexivity. Qed.

(** a spelling letter is no punctuation key (second chain) *)
Lemma punct_lookup_letter o b : no_letter_punct cfg -> letter b -> punct_lookup cfg o b = None.
Proof. intros Hn Hb. unfold punct_lookup. destruct (Hn b Hb) as (A & B). destruct (opts_get o opt_full_shape); assumption. Qed.

(** one round of the segmentors over an all-letters input that is not yet covered *)
Lemma round_letters o h X segs :
  opts_get o opt_ascii_mode = false ->
  Forall letter X -> X <> [] ->
  (segs = [] \/ exists g, segs = [g] /\ seg_ok g /\ s_end g < length X) ->
  seg_round cfg o h (mkSegm X segs) = mkSegm X [fresh_seg (length X)].
Proof.
  intros Hoa Hl Hne Hs.
  assert (Hround : seg_round cfg o h (mkSegm X segs) = fallback_proceed (abc_proceed cfg (mkSegm X segs)) \/
                   (no_letter_punct cfg /\
                    seg_round cfg o h (mkSegm X segs) =
                    (let (sg2, cont) := punct_proceed cfg o h (abc_proceed cfg (mkSegm X segs)) in
                     if cont then fallback_proceed sg2 else sg2))).
  { unfold seg_round.
    assert (Has : forall rest sg, run_segmentors cfg o h (as_pre cfg ++ rest) sg = run_segmentors cfg o h rest sg).
    { intros rest sg. unfold as_pre. destruct (has_as cfg); [|reflexivity].
      cbn [app run_segmentors segmentor_proceed]. unfold ascii_proceed. rewrite Hoa. reflexivity. }
    destruct Hchain as [(_ & ->) | (_ & -> & Hn)]; rewrite Has; [left; reflexivity | right; split; [exact Hn|]].
    cbn [run_segmentors segmentor_proceed]. destruct (punct_proceed cfg o h (abc_proceed cfg (mkSegm X segs))) as [sg2 cont].
    destruct cont; reflexivity. }
  assert (HX : 0 < length X) by (destruct X; [congruence | cbn; lia]).
  assert (Habc : abc_proceed cfg (mkSegm X segs) = mkSegm X [fresh_seg (length X)]).
  { unfold abc_proceed.
    assert (cur_start (mkSegm X segs) = 0) as ->.
    { destruct Hs as [-> | (g & -> & (H0 & _) & _)]; [reflexivity | exact H0]. }
    cbn [skipn sg_input]. rewrite (abc_scan_letters X Hl). cbn [Nat.add].
    replace (0 <? length X) with true by (symmetry; apply Nat.ltb_lt; lia).
    fold (fresh_seg (length X)). unfold add_segment.
    destruct Hs as [-> | (g & -> & (H0 & H1 & H2 & H3) & Hlt)].
    - reflexivity.
    - cbn [cur_start sg_segs]. rewrite H0. cbn [fresh_seg seg_with_tags new_segment s_start s_end Nat.eqb negb].
      replace (length X <? s_end g) with false by (symmetry; apply Nat.ltb_ge; lia).
      replace (s_end g <? length X) with true by (symmetry; apply Nat.ltb_lt; lia).
      reflexivity. }
  assert (Hfb : fallback_proceed (mkSegm X [fresh_seg (length X)]) = mkSegm X [fresh_seg (length X)]).
  { unfold fallback_proceed.
    cbn [cur_len sg_segs fresh_seg seg_with_tags new_segment s_end s_start]. rewrite Nat.sub_0_r.
    replace (0 <? length X) with true by (symmetry; apply Nat.ltb_lt; lia). reflexivity. }
  destruct Hround as [-> | (Hn & ->)]; rewrite Habc; [exact Hfb|].
  unfold punct_proceed. cbn [cur_start sg_segs sg_input fresh_seg seg_with_tags new_segment s_start].
  destruct X as [|b X']; [congruence|]. cbn [nth_error]. inversion Hl as [|? ? Hb _]; subst.
  rewrite (letter_printable b Hb). cbn [negb]. rewrite (punct_lookup_letter o b Hn Hb). exact Hfb.
Qed.

Lemma calc_loop_letters o h fuel caret X segs :
  opts_get o opt_ascii_mode = false ->
  Forall letter X ->
  (segs = [] \/ exists g, segs = [g] /\ seg_ok g /\ s_end g <= length X) ->
  exists l, calc_loop cfg o h (S fuel) caret (mkSegm X segs) = (mkSegm X l, true) /\
    ((X = [] /\ l = []) \/
     (X <> [] /\ exists g, l = [g] /\ s_start g = 0 /\ s_end g = length X
                          /\ (s_status g = SGuess \/ s_status g = SVoid) /\ s_sel g = 0%N
                          /\ s_start g <> s_end g)).
Proof.
  intros Hoa Hl Hs. rewrite calc_loop_unfold. unfold has_finished. cbn [sg_input].
  destruct X as [|b X'].
  - assert (segs = []) as ->.
    { destruct Hs as [?|(g & -> & (?&?&?&?) & Hle)]; [assumption|]. cbn in Hle. lia. }
    exists []. cbn. auto.
  - set (X := b :: X') in *.
    assert (HX : 0 < length X) by (cbn; lia).
    assert (Hne : X <> []) by discriminate.
    destruct (length X <=? cur_end (mkSegm X segs)) eqn:Efin.
    + (* already covered: the kept segment *)
      apply Nat.leb_le in Efin.
      destruct Hs as [-> | (g & -> & (H0 & H1 & H2 & H3) & Hle)]; [cbn [cur_end sg_segs] in Efin; lia|].
      cbn [cur_end sg_segs] in Efin. exists [g]. split; [reflexivity|]. right. split; [assumption|].
      exists g. split; [reflexivity|]. split; [assumption|]. split; [lia|]. split; [auto|]. split; [assumption|]. lia.
    + apply Nat.leb_gt in Efin.
      assert (Hs' : segs = [] \/ exists g, segs = [g] /\ seg_ok g /\ s_end g < length X).
      { destruct Hs as [-> | (g & -> & Hok & Hle)]; [auto|]. right. exists g. cbn [cur_end sg_segs] in Efin. auto. }
      cbv zeta. rewrite (round_letters o h X segs Hoa Hl Hne Hs').
      assert (cur_start (mkSegm X segs) = 0) as ->.
      { destruct Hs' as [-> | (g & -> & (H0 & _) & _)]; [reflexivity | exact H0]. }
      cbn [cur_end sg_segs fresh_seg seg_with_tags new_segment s_end].
      replace (0 =? length X) with false by (symmetry; apply Nat.eqb_neq; lia).
      assert (Hres : (X <> [] /\ exists g, [fresh_seg (length X)] = [g] /\ s_start g = 0 /\ s_end g = length X
                          /\ (s_status g = SGuess \/ s_status g = SVoid) /\ s_sel g = 0%N /\ s_start g <> s_end g)).
      { split; [assumption|]. eexists. split; [reflexivity|]. cbn. repeat split; auto; lia. }
      destruct (caret <=? 0).
      * exists [fresh_seg (length X)]. split; [reflexivity|]. right. exact Hres.
      * cbn [sg_input]. rewrite Nat.leb_refl. rewrite calc_loop_unfold. unfold has_finished.
        cbn [cur_end sg_segs sg_input fresh_seg seg_with_tags new_segment s_end]. rewrite Nat.leb_refl.
        exists [fresh_seg (length X)]. split; [reflexivity|]. right. exact Hres.
Qed.

Lemma calc_segmentation_letters o h caret X segs :
  opts_get o opt_ascii_mode = false ->
  Forall letter X ->
  (segs = [] \/ exists g, segs = [g] /\ seg_ok g /\ s_end g <= length X) ->
  exists l, calc_segmentation cfg o h caret (mkSegm X segs) = (mkSegm X l, true) /\
    ((X = [] /\ l = []) \/
     (X <> [] /\ exists g, l = [g] /\ s_start g = 0 /\ s_end g = length X
                          /\ (s_status g = SGuess \/ s_status g = SVoid) /\ s_sel g = 0%N)).
Proof.
  intros Hoa Hl Hs. unfold calc_segmentation. cbn [sg_input].
  destruct (calc_loop_letters o h (length X) caret X segs Hoa Hl Hs) as (l & -> & Hr).
  destruct Hr as [(-> & ->) | (Hne & g & -> & H0 & H1 & H2 & H3 & H4)].
  - exists []. cbn. auto.
  - exists [g]. cbn [sg_segs]. unfold trim. cbn [sg_segs].
    replace (s_start g =? s_end g) with false by (symmetry; apply Nat.eqb_neq; assumption).
    assert (status_geb (s_status g) SSelected = false) as Hst by (destruct H2 as [-> | ->]; reflexivity).
    destruct (has_tag TPlaceholder (s_tags g)); cbn [fst sg_segs]; rewrite Hst;
      (split; [reflexivity|]; right; split; [assumption|]; exists g; auto).
Qed.

Lemma confirmed_pos_segs_ok l : segs_ok l -> confirmed_pos_rev l = 0.
Proof. intros [-> | (g & -> & (_ & _ & H & _))]; cbn; [reflexivity|]. now rewrite H. Qed.

Lemma Forall_firstn_letter n l : Forall letter l -> Forall letter (firstn n l).
Proof. intros H. revert n. induction H; intros [|n]; cbn; constructor; auto. Qed.

Lemma translate_segs_one o X g :
  s_start g = 0 -> s_end g = length X -> (s_status g = SGuess \/ s_status g = SVoid) -> s_sel g = 0%N ->
  exists g', translate_segs translate o (mkSegm X [g]) = (mkSegm X [g'], true)
             /\ s_start g' = 0 /\ s_end g' = length X /\ s_status g' = SGuess /\ s_sel g' = 0%N.
Proof.
  intros H0 H1 H2 H3. unfold translate_segs. cbn [sg_input sg_segs translate_list]. unfold translate_one.
  destruct H2 as [H2 | H2]; rewrite H2; cbn [status_geb status_rank Nat.leb].
  - exists g. cbn. auto.
  - unfold substr_se. rewrite H0, H1.
    replace (length X <? 0) with false by reflexivity. cbn [Nat.leb].
    eexists. cbn [andb sg_with_segs]. split; [reflexivity|]. cbn. auto.
Qed.

(** Compose re-establishes the invariant from any composition of the right shape *)
Lemma compose_ok c :
  cx_err c = None -> Forall letter (cx_input c) -> cx_caret c <= length (cx_input c) ->
  cx_opts c = init_opts -> segs_ok (sg_segs (cx_comp c)) -> cx_conn c = false ->
  ctx_ok (compose cfg translate c) /\ cx_input (compose cfg translate c) = cx_input c
  /\ cx_caret (compose cfg translate c) = cx_caret c.
Proof.
  intros Herr Hl Hc Ho Hs Hconn.
  assert (Ehook : compose cfg translate c = compose_core cfg translate c).
  { unfold compose, ac_on_update.
    replace (cx_conn (compose_core cfg translate c)) with (cx_conn c); [rewrite Hconn; reflexivity|].
    unfold compose_core. repeat match goal with |- context [let (_, _) := ?x in _] => destruct x end.
    unfold ctx_check. repeat match goal with |- context [if ?b then _ else _] => destruct b end; reflexivity. }
  rewrite Ehook. unfold compose_core.
  set (active := firstn (cx_caret c) (cx_input c)).
  destruct (reset_input_segs (cx_comp c) active Hs) as (Hi1 & Hs1).
  assert (Hcp : confirmed_pos (reset_input (cx_comp c) active) = 0).
  { apply confirmed_pos_segs_ok. destruct Hs1 as [-> | (g & -> & Hok & _)]; [left | right; exists g]; auto. }
  rewrite Hcp.
  (* X: the input of the composition after the Reset(s) *)
  set (sgr := if (cx_caret c <? length (cx_input c)) && (cx_caret c =? 0)
              then reset_input (reset_input (cx_comp c) active) (cx_input c)
              else reset_input (cx_comp c) active).
  assert (HX : exists X l, sgr = mkSegm X l /\ Forall letter X /\ (X = [] <-> cx_input c = []) /\
                           (l = [] \/ exists g, l = [g] /\ seg_ok g /\ s_end g <= length X)).
  { subst sgr. destruct ((cx_caret c <? length (cx_input c)) && (cx_caret c =? 0)) eqn:E.
    - apply andb_prop in E as (E1 & E2). apply Nat.ltb_lt in E1. apply Nat.eqb_eq in E2.
      assert (Hs1' : segs_ok (sg_segs (reset_input (cx_comp c) active))).
      { destruct Hs1 as [-> | (g & -> & Hok & _)]; [left | right; exists g]; auto. }
      destruct (reset_input_segs _ (cx_input c) Hs1') as (Hi2 & Hs2).
      destruct (reset_input (reset_input (cx_comp c) active) (cx_input c)) as [X l]. cbn [sg_input sg_segs] in *.
      subst X. exists (cx_input c), l. repeat split; auto.
    - destruct (reset_input (cx_comp c) active) as [X l]. cbn [sg_input sg_segs] in *. subst X.
      exists active, l. split; [reflexivity|]. split; [apply Forall_firstn_letter; assumption|]. split; [|assumption].
      subst active. split.
      + intros Hnil. destruct (cx_input c) as [|b r] eqn:Ei; [reflexivity|]. exfalso.
        destruct (cx_caret c) as [|k] eqn:Ek; [|cbn in Hnil; discriminate].
        cbn in E. discriminate.
      + intros ->. now rewrite firstn_nil. }
  destruct HX as (X & l & -> & HlX & HXnil & Hl1).
  assert (Hoa : opts_get (cx_opts c) opt_ascii_mode = false).
  { rewrite Ho. unfold init_opts. cbn [opts_get]. replace (bytes_eqb opt_auto_commit opt_ascii_mode) with false by reflexivity. reflexivity. }
  destruct (calc_segmentation_letters (cx_opts c) (cx_hist c) (cx_caret c) X l Hoa HlX Hl1) as (l2 & -> & Hr).
  destruct Hr as [(-> & ->) | (Hne & g & -> & H0 & H1 & H2 & H3)].
  - (* empty input *)
    cbn. unfold ctx_ok. cbn. repeat split; auto.
    + left; reflexivity.
    + intros _. now apply HXnil.
  - destruct (translate_segs_one (cx_opts c) X g H0 H1 H2 H3) as (g' & -> & G0 & G1 & G2 & G3).
    cbn [ctx_check]. unfold ctx_ok. cbn [ctx_with_comp cx_err cx_input cx_caret cx_opts cx_comp sg_segs].
    assert (0 < length X) by (destruct X; [congruence | cbn; lia]).
    repeat split; auto.
    + right. exists g'. split; [reflexivity|]. repeat split; auto. lia.
    + discriminate.
    + intros Hin. apply HXnil in Hin. congruence.
Qed.

Lemma Forall_skipn_letter n l : Forall letter l -> Forall letter (skipn n l).
Proof. intros H. revert n. induction H; intros [|n]; cbn; auto. Qed.

Lemma begin_editing_ok c : segs_ok (sg_segs (cx_comp c)) -> begin_editing c = c.
Proof.
  intros Hs. unfold begin_editing. destruct c as [i k [ci l] o e]. cbn in *.
  destruct Hs as [-> | (g & -> & (_ & _ & H & _))]; cbn; [reflexivity|]. now rewrite H.
Qed.

Ltac use_compose_ok H :=
  match goal with
  | |- context [compose cfg translate ?c'] =>
    let K := fresh "K" in
    assert (K : ctx_ok (compose cfg translate c') /\ cx_input (compose cfg translate c') = cx_input c'
                /\ cx_caret (compose cfg translate c') = cx_caret c');
    [apply compose_ok; cbn [ctx_with_input ctx_with_comp cx_err cx_input cx_caret cx_opts cx_comp cx_conn]; try apply H; auto;
     try (match goal with Hn : _ /\ cx_conn _ = false |- cx_conn _ = false => exact (proj2 Hn) end) | ]
  end.

(** ---- the primitives of Context under the invariant ---- *)
Lemma push_input_ok c ch :
  ctx_ok c -> letter ch ->
  let c' := push_input cfg translate c ch in
  ctx_ok c' /\ cx_input c' = firstn (cx_caret c) (cx_input c) ++ ch :: skipn (cx_caret c) (cx_input c)
  /\ cx_caret c' = S (cx_caret c).
Proof.
  intros (He & Hl & Hc & Ho & Hs & Hn) Hch. unfold push_input.
  destruct (length (cx_input c) <=? cx_caret c) eqn:E.
  - apply Nat.leb_le in E. assert (cx_caret c = length (cx_input c)) as Heq by lia.
    rewrite Heq, firstn_all, skipn_all.
    use_compose_ok Hs.
    + apply Forall_app; split; [assumption | constructor; [assumption | constructor]].
    + rewrite app_length; cbn; lia.
    + destruct K as (K1 & K2 & K3). cbn in K2, K3. auto.
  - apply Nat.leb_gt in E.
    use_compose_ok Hs.
    + apply Forall_app; split; [apply Forall_firstn_letter; assumption|].
      constructor; [assumption | apply Forall_skipn_letter; assumption].
    + rewrite app_length, firstn_length. cbn [length]. rewrite skipn_length. lia.
    + destruct K as (K1 & K2 & K3). cbn in K2, K3. auto.
Qed.

Lemma pop_input_ok c :
  ctx_ok c ->
  (cx_caret c = 0 /\ pop_input cfg translate c 1 = (c, false)) \/
  (0 < cx_caret c /\ snd (pop_input cfg translate c 1) = true /\
   let c' := fst (pop_input cfg translate c 1) in
   ctx_ok c' /\ cx_input c' = firstn (cx_caret c - 1) (cx_input c) ++ skipn (cx_caret c) (cx_input c)
   /\ cx_caret c' = cx_caret c - 1).
Proof.
  intros (He & Hl & Hc & Ho & Hs & Hn). unfold pop_input.
  destruct (cx_caret c <? 1) eqn:E.
  - apply Nat.ltb_lt in E. left. split; [lia | reflexivity].
  - apply Nat.ltb_ge in E. right. split; [lia|]. cbn [fst snd]. split; [reflexivity|].
    replace (cx_caret c - 1 + 1) with (cx_caret c) by lia.
    use_compose_ok Hs.
    + apply Forall_app; split; [apply Forall_firstn_letter | apply Forall_skipn_letter]; assumption.
    + rewrite app_length, firstn_length, skipn_length. lia.
    + destruct K as (K1 & K2 & K3). cbn in K2, K3. auto.
Qed.

Lemma delete_input_ok c :
  ctx_ok c ->
  (length (cx_input c) <= cx_caret c /\ delete_input cfg translate c 1 = (c, false)) \/
  (cx_caret c < length (cx_input c) /\
   let c' := fst (delete_input cfg translate c 1) in
   ctx_ok c' /\ cx_input c' = firstn (cx_caret c) (cx_input c) ++ skipn (S (cx_caret c)) (cx_input c)
   /\ cx_caret c' = cx_caret c).
Proof.
  intros (He & Hl & Hc & Ho & Hs & Hn). unfold delete_input.
  destruct (length (cx_input c) <? cx_caret c + 1) eqn:E.
  - apply Nat.ltb_lt in E. left. split; [lia | reflexivity].
  - apply Nat.ltb_ge in E. right. split; [lia|]. cbn [fst].
    replace (cx_caret c + 1) with (S (cx_caret c)) by lia.
    use_compose_ok Hs.
    + apply Forall_app; split; [apply Forall_firstn_letter | apply Forall_skipn_letter]; assumption.
    + rewrite app_length, firstn_length, skipn_length. lia.
    + destruct K as (K1 & K2 & K3). cbn in K2, K3. auto.
Qed.

Lemma set_caret_pos_ok c pos :
  ctx_ok c -> pos <= length (cx_input c) ->
  let c' := set_caret_pos cfg translate c pos in
  ctx_ok c' /\ cx_input c' = cx_input c /\ cx_caret c' = pos.
Proof.
  intros (He & Hl & Hc & Ho & Hs & Hn) Hp. unfold set_caret_pos.
  replace (length (cx_input c) <? pos) with false by (symmetry; apply Nat.ltb_ge; lia).
  use_compose_ok Hs. destruct K as (K1 & K2 & K3). cbn in K2, K3. auto.
Qed.

Lemma clear_ok c :
  ctx_ok c -> let c' := clear cfg translate c in ctx_ok c' /\ cx_input c' = [] /\ cx_caret c' = 0.
Proof.
  intros (He & Hl & Hc & Ho & Hs & Hn). unfold clear.
  use_compose_ok Hs.
  - cbn. left; reflexivity.
  - destruct K as (K1 & K2 & K3). cbn in K2, K3. auto.
Qed.

Lemma set_input_nil_ok c :
  ctx_ok c -> let c' := set_input cfg translate c [] in ctx_ok c' /\ cx_input c' = [] /\ cx_caret c' = 0.
Proof.
  intros (He & Hl & Hc & Ho & Hs & Hn). unfold set_input.
  use_compose_ok Hs. destruct K as (K1 & K2 & K3). cbn in K2, K3. auto.
Qed.

(** ---- the seven non-letter keys of the alphabet ---- *)
Definition special (code : Z) : Prop :=
  In code [XK_BackSpace; XK_Delete; XK_KP_Left; XK_KP_Right; XK_Home; XK_End; XK_Escape].

Lemma special_ge code : special code -> (127 <= code)%Z.
Proof. intros H. repeat (destruct H as [<- | H]; [vm_compute; discriminate|]). destruct H. Qed.

Lemma speller_nonletter s code : (127 <= code)%Z -> speller_process cfg translate s (mkKey code 0) = (s, PNoop).
Proof.
  intros H. unfold speller_process. cbn [k_release k_ctrl k_alt k_super k_mod k_code Z.testbit orb].
  replace (127 <=? code)%Z with true by (symmetry; apply Z.leb_le; assumption).
  now rewrite orb_true_r.
Qed.

Lemma speller_letter s b :
  letter b ->
  speller_process cfg translate s (mkKey (Z.of_N (N_of_byte b)) 0)
  = (on_ctx s (fun c => begin_editing (push_input cfg translate c b)), PAccepted).
Proof.
  intros Hb. pose proof (letter_code b Hb) as Hc. unfold speller_process.
  cbn [k_release k_ctrl k_alt k_super k_shift k_mod k_code Z.testbit orb].
  replace (Z.of_N (N_of_byte b) <? 32)%Z with false by (symmetry; apply Z.ltb_ge; lia).
  replace (127 <=? Z.of_N (N_of_byte b))%Z with false by (symmetry; apply Z.leb_gt; lia).
  replace (Z.of_N (N_of_byte b) =? XK_space)%Z with false by (symmetry; apply Z.eqb_neq; unfold XK_space; lia).
  cbn [orb andb]. rewrite byte_of_code.
  rewrite ?Halpha, ?Hdelims, ?Hinitials, ?Husp.
  unfold letter in Hb. rewrite Hb. reflexivity.
Qed.

Lemma opts_init_vertical c : cx_opts c = init_opts -> get_option c opt_vertical = false.
Proof. unfold get_option, init_opts. intros ->. reflexivity. Qed.
Lemma opts_init_linear c : cx_opts c = init_opts -> is_linear_layout c = false.
Proof. unfold is_linear_layout, get_option, init_opts. intros ->. reflexivity. Qed.
Lemma opts_init_full_shape c : cx_opts c = init_opts -> get_option c opt_full_shape = false.
Proof. unfold get_option, init_opts. intros ->. reflexivity. Qed.

Lemma sel_keymap_init c : cx_opts c = init_opts -> sel_keymap c = keymap_of_binds sel_hs_binds.
Proof. intros H. unfold sel_keymap. now rewrite (opts_init_vertical c H), (opts_init_linear c H). Qed.

Lemma select_key_index_special code : special code -> select_key_index cfg (mkKey code 0) = (-1)%Z.
Proof. intros H. unfold select_key_index. rewrite Hsk. cbn [negb andb k_code]. repeat (destruct H as [<- | H]; [vm_compute; reflexivity|]). destruct H. Qed.

Lemma sel_find_special code :
  special code ->
  keymap_find (keymap_of_binds sel_hs_binds) (mkKey code 0) =
  if (code =? XK_Home)%Z then Some SelHome else if (code =? XK_End)%Z then Some SelEnd else None.
Proof. intros H. repeat (destruct H as [<- | H]; [vm_compute; reflexivity|]). destruct H. Qed.

Lemma sel_home_ok c : segs_ok (sg_segs (cx_comp c)) -> sel_home c = (c, false).
Proof.
  intros [Hn | (g & Hg & (_ & _ & _ & Hsel))]; unfold sel_home; rewrite ?Hn, ?Hg; [reflexivity|].
  now rewrite Hsel.
Qed.
Lemma sel_end_ok c : segs_ok (sg_segs (cx_comp c)) -> sel_end c = (c, false).
Proof. intros H. unfold sel_end. rewrite (sel_home_ok c H). now destruct (cx_caret c <? length (cx_input c)). Qed.

Lemma selector_special s code :
  ctx_ok (st_ctx s) -> special code -> selector_process cfg translate s (mkKey code 0) = (s, PNoop).
Proof.
  intros (He & Hl & Hc & Ho & Hs & Hn) Hsp. unfold selector_process.
  cbn [k_release k_alt k_super k_mod Z.testbit orb].
  destruct (sg_segs (cx_comp (st_ctx s))) as [|g r] eqn:Eg; [reflexivity|].
  destruct ((match s_menu g with None => true | Some _ => false end) || has_tag TRaw (s_tags g)); [reflexivity|].
  rewrite (sel_keymap_init _ Ho). unfold kbp_process, kbp_accept.
  rewrite (sel_find_special code Hsp), (select_key_index_special code Hsp).
  assert (Hs' : segs_ok (sg_segs (cx_comp (st_ctx s)))) by (rewrite Eg; exact Hs).
  destruct (code =? XK_Home)%Z.
  - cbn [run_sel_action]. unfold on_ctx_b. rewrite (sel_home_ok _ Hs'). rewrite st_with_ctx_id. reflexivity.
  - destruct (code =? XK_End)%Z.
    + cbn [run_sel_action]. unfold on_ctx_b. rewrite (sel_end_ok _ Hs'). rewrite st_with_ctx_id. reflexivity.
    + reflexivity.
Qed.

(** ---- Navigator ---- *)
Definition ctx_is (c : context) (inp : bytes) (car : nat) : Prop :=
  ctx_ok c /\ cx_input c = inp /\ cx_caret c = car.

Lemma nav_find_special code :
  special code ->
  keymap_find (keymap_of_binds nav_horizontal_binds) (mkKey code 0) =
  if (code =? XK_KP_Left)%Z then Some NavLeftByChar
  else if (code =? XK_KP_Right)%Z then Some NavRightByChar
  else if (code =? XK_Home)%Z then Some NavHome
  else if (code =? XK_End)%Z then Some NavEnd else None.
Proof. intros H. repeat (destruct H as [<- | H]; [vm_compute; reflexivity|]). destruct H. Qed.

Lemma begin_move_ctx s :
  ctx_ok (st_ctx s) -> st_ctx (begin_move s) = st_ctx s /\ st_commit (begin_move s) = st_commit s.
Proof.
  intros (He & Hl & Hc & Ho & Hs & Hn). unfold begin_move. rewrite (begin_editing_ok _ Hs).
  destruct (negb (bytes_eqb (st_nav_input s) (cx_input (st_ctx s))) || (spans_end (st_spans s) <? cx_caret (st_ctx s)));
    cbn; auto.
Qed.

Lemma caret_move s1 s pos :
  st_commit s1 = st_commit s -> ctx_ok (st_ctx s) -> pos <= length (cx_input (st_ctx s)) ->
  st_commit (st_with_ctx s1 (set_caret_pos cfg translate (st_ctx s) pos)) = st_commit s /\
  ctx_is (st_ctx (st_with_ctx s1 (set_caret_pos cfg translate (st_ctx s) pos))) (cx_input (st_ctx s)) pos.
Proof. intros Hc H Hp. cbn. split; [assumption | apply set_caret_pos_ok; assumption]. Qed.

Lemma go_home_conf c :
  ctx_ok c ->
  let conf := match sg_segs (cx_comp c) with [] => cx_caret c | l => go_home_pos l (cx_caret c) end in
  conf = 0 \/ conf = cx_caret c.
Proof.
  intros (_ & _ & _ & _ & [Hn | (g & Hg & (G0 & _ & G2 & _))] & _); rewrite ?Hn, ?Hg; cbn; auto.
  rewrite G2. cbn. auto.
Qed.

Lemma go_home_ok s1 s :
  st_ctx s1 = st_ctx s -> st_commit s1 = st_commit s -> ctx_ok (st_ctx s) ->
  st_commit (fst (go_home cfg translate s1)) = st_commit s /\
  ctx_is (st_ctx (fst (go_home cfg translate s1))) (cx_input (st_ctx s)) 0.
Proof.
  intros Hbc Hbm Hok. unfold go_home. rewrite Hbc.
  pose proof (go_home_conf _ Hok) as Hconf. cbv zeta in Hconf.
  set (conf := match sg_segs (cx_comp (st_ctx s)) with [] => cx_caret (st_ctx s) | l => go_home_pos l (cx_caret (st_ctx s)) end) in *.
  destruct (conf <? cx_caret (st_ctx s)) eqn:E1.
  - apply Nat.ltb_lt in E1. assert (conf = 0) as -> by (destruct Hconf as [?|?]; lia).
    cbn [fst]. apply caret_move; auto. lia.
  - destruct (cx_caret (st_ctx s) =? 0) eqn:E2; cbn [negb fst].
    + apply Nat.eqb_eq in E2. split; [assumption|]. rewrite Hbc. split; [assumption | split; [reflexivity | assumption]].
    + apply caret_move; auto. lia.
Qed.

Lemma go_to_end_ok s1 s :
  st_ctx s1 = st_ctx s -> st_commit s1 = st_commit s -> ctx_ok (st_ctx s) ->
  st_commit (fst (go_to_end cfg translate s1)) = st_commit s /\
  ctx_is (st_ctx (fst (go_to_end cfg translate s1))) (cx_input (st_ctx s)) (length (cx_input (st_ctx s))).
Proof.
  intros Hbc Hbm Hok. unfold go_to_end. rewrite Hbc.
  destruct (cx_caret (st_ctx s) =? length (cx_input (st_ctx s))) eqn:E1; cbn [negb fst].
  - apply Nat.eqb_eq in E1. split; [assumption|]. rewrite Hbc. split; [assumption | split; [reflexivity | assumption]].
  - apply caret_move; auto.
Qed.

Lemma nav_action_ok s a :
  ctx_ok (st_ctx s) ->
  match a with NavLeftByChar | NavRightByChar | NavHome | NavEnd => True | _ => False end ->
  let inp := cx_input (st_ctx s) in
  let car := cx_caret (st_ctx s) in
  let s' := fst (run_nav_action cfg translate s a) in
  snd (run_nav_action cfg translate s a) = true /\ st_commit s' = st_commit s /\
  ctx_is (st_ctx s') inp
         (match a with
          | NavLeftByChar => if car =? 0 then length inp else car - 1
          | NavRightByChar => if length inp <=? car then 0 else S car
          | NavHome => 0
          | _ => length inp
          end).
Proof.
  intros Hok Ha. destruct (begin_move_ctx s Hok) as (Hbc & Hbm).
  set (s1 := begin_move s) in *.
  assert (Hcar : cx_caret (st_ctx s) <= length (cx_input (st_ctx s))) by apply Hok.
  destruct a; try contradiction; cbn [run_nav_action fst snd]; fold s1; (split; [reflexivity|]).
  - (* left *)
    unfold or_else, move_left. rewrite Hbc.
    destruct (cx_caret (st_ctx s) =? 0) eqn:E0.
    + apply go_to_end_ok; assumption.
    + cbn [fst]. apply Nat.eqb_neq in E0. apply caret_move; auto. lia.
  - (* right *)
    unfold or_else, move_right. rewrite Hbc.
    destruct (length (cx_input (st_ctx s)) <=? cx_caret (st_ctx s)) eqn:E0.
    + apply go_home_ok; assumption.
    + cbn [fst]. apply Nat.leb_gt in E0. apply caret_move; auto.
  - apply go_home_ok; assumption.
  - apply go_to_end_ok; assumption.
Qed.

Lemma composing_iff c :
  ctx_ok c -> is_composing c = negb (match cx_input c with [] => true | _ => false end).
Proof.
  intros (_ & _ & _ & _ & _ & Hn). unfold is_composing, sg_empty.
  destruct (cx_input c) as [|b r] eqn:E; [|reflexivity].
  assert (sg_segs (cx_comp c) = []) as -> by (apply Hn; reflexivity). reflexivity.
Qed.

Lemma navigator_special s code :
  ctx_ok (st_ctx s) -> special code ->
  navigator_process cfg translate s (mkKey code 0) =
  if negb (is_composing (st_ctx s)) then (s, PNoop)
  else match keymap_find (keymap_of_binds nav_horizontal_binds) (mkKey code 0) with
       | Some a => (fst (run_nav_action cfg translate s a), PAccepted)
       | None => (s, PNoop)
       end.
Proof.
  intros Hok Hsp. unfold navigator_process. cbn [k_release k_mod Z.testbit].
  destruct (negb (is_composing (st_ctx s))); [reflexivity|].
  assert (Ho : cx_opts (st_ctx s) = init_opts) by apply Hok.
  rewrite (opts_init_vertical _ Ho). unfold kbp_process, kbp_accept.
  rewrite (nav_find_special code Hsp).
  destruct (code =? XK_KP_Left)%Z; [|destruct (code =? XK_KP_Right)%Z; [|destruct (code =? XK_Home)%Z;
    [|destruct (code =? XK_End)%Z]]];
    try (match goal with |- context [run_nav_action cfg translate s ?a] =>
           destruct (nav_action_ok s a Hok I) as (Hsnd & _);
           destruct (run_nav_action cfg translate s a) as [x b]; cbn [snd] in Hsnd; subst b; reflexivity end).
  reflexivity.
Qed.

(** ---- Editor ---- *)
Lemma st_with_ctx_twice s a b : st_with_ctx (st_with_ctx s a) b = st_with_ctx s b.
Proof. reflexivity. Qed.

Lemma reopen_prev_seg_ok c :
  segs_ok (sg_segs (cx_comp c)) -> reopen_previous_segment cfg translate c = (c, false).
Proof.
  intros [Hn | (g & Hg & (G0 & G1 & _))]; unfold reopen_previous_segment, trim; rewrite ?Hn, ?Hg; [reflexivity|].
  replace (s_start g =? s_end g) with false by (symmetry; apply Nat.eqb_neq; lia). reflexivity.
Qed.

Lemma reopen_prev_sel_ok c :
  segs_ok (sg_segs (cx_comp c)) -> reopen_previous_selection cfg translate c = (c, false).
Proof.
  intros [Hn | (g & Hg & (_ & _ & G2 & _))]; unfold reopen_previous_selection; rewrite ?Hn, ?Hg; cbn; [reflexivity|].
  now rewrite G2.
Qed.

Lemma ed_find_special code :
  special code ->
  keymap_find (editor_keymap cfg) (mkKey code 0) =
  if (code =? XK_BackSpace)%Z then Some (if fluid then EdBackToPreviousInput else EdRevertLastEdit)
  else if (code =? XK_Delete)%Z then Some EdDeleteChar
  else if (code =? XK_Escape)%Z then Some EdCancelComposition else None.
Proof.
  intros H. unfold editor_keymap.
  destruct fluid; repeat (destruct H as [<- | H]; [vm_compute; reflexivity|]); destruct H.
Qed.

Lemma ed_backspace_ok s a :
  ctx_ok (st_ctx s) -> a = EdBackToPreviousInput \/ a = EdRevertLastEdit ->
  run_editor_action cfg translate s a
  = (st_with_ctx s (fst (pop_input cfg translate (st_ctx s) 1)), true).
Proof.
  intros Hok Ha. assert (Hs : segs_ok (sg_segs (cx_comp (st_ctx s)))) by apply Hok.
  destruct (pop_input_ok _ Hok) as [(H0 & Hp) | (H0 & Hsnd & Hok' & _)].
  - (* nothing to pop *)
    destruct Ha as [-> | ->]; cbn [run_editor_action]; unfold ed_revert_last_edit, or_else, on_ctx_b;
      repeat (first [rewrite (reopen_prev_seg_ok _ Hs) | rewrite (reopen_prev_sel_ok _ Hs) | rewrite Hp
                    | rewrite st_with_ctx_id | progress cbn [fst snd]]); reflexivity.
  - assert (Hs' : segs_ok (sg_segs (cx_comp (fst (pop_input cfg translate (st_ctx s) 1))))) by apply Hok'.
    destruct (pop_input cfg translate (st_ctx s) 1) as [c' b] eqn:Ep. cbn [fst snd] in *. subst b.
    destruct Ha as [-> | ->]; cbn [run_editor_action]; unfold ed_revert_last_edit, or_else, on_ctx_b;
      repeat (first [rewrite (reopen_prev_seg_ok _ Hs) | rewrite (reopen_prev_sel_ok _ Hs) | rewrite Ep
                    | rewrite (reopen_prev_seg_ok _ Hs') | rewrite st_with_ctx_id
                    | progress cbn [fst snd st_with_ctx st_ctx]]); reflexivity.
Qed.

Lemma ed_cancel_ok s :
  ctx_ok (st_ctx s) ->
  exists c', run_editor_action cfg translate s EdCancelComposition = (st_with_ctx s c', true)
             /\ ctx_is c' [] 0.
Proof.
  intros Hok. cbn [run_editor_action]. unfold on_ctx_b, clear_previous_segment.
  destruct Hok as (He & Hl & Hc & Ho & Hs & Hn).
  destruct Hs as [Hnil | (g & Hg & (G0 & G1 & G2 & G3))].
  - rewrite Hnil. cbn [fst snd]. rewrite st_with_ctx_id. eexists. split; [reflexivity|].
    apply clear_ok. repeat split; auto. left; assumption. all: apply Hn.
  - rewrite Hg, G0.
    assert (cx_input (st_ctx s) <> []) as Hne by (intros E; apply Hn in E; congruence).
    replace (length (cx_input (st_ctx s)) <=? 0) with false
      by (symmetry; apply Nat.leb_gt; destruct (cx_input (st_ctx s)); [congruence | cbn; lia]).
    cbn [firstn]. eexists. split; [reflexivity|].
    apply set_input_nil_ok. repeat split; auto. right; exists g; repeat split; auto. all: apply Hn.
Qed.

Lemma editor_special s code :
  ctx_ok (st_ctx s) -> special code ->
  editor_process cfg translate s (mkKey code 0) =
  if is_composing (st_ctx s)
  then match keymap_find (editor_keymap cfg) (mkKey code 0) with
       | Some a => (fst (run_editor_action cfg translate s a), PAccepted)
       | None => (s, PNoop)
       end
  else (s, PNoop).
Proof.
  intros Hok Hsp. pose proof (special_ge code Hsp) as Hge. unfold editor_process.
  cbn [k_release k_ctrl k_alt k_super k_mod k_code Z.testbit].
  replace (code <? 127)%Z with false by (symmetry; apply Z.ltb_ge; lia).
  rewrite andb_false_r.
  destruct (is_composing (st_ctx s)); [|reflexivity].
  unfold kbp_process, kbp_accept. rewrite (ed_find_special code Hsp).
  destruct (code =? XK_BackSpace)%Z.
  { rewrite (ed_backspace_ok s _ Hok) by (destruct fluid; auto). reflexivity. }
  destruct (code =? XK_Delete)%Z; [reflexivity|].
  destruct (code =? XK_Escape)%Z; [|reflexivity].
  destruct (ed_cancel_ok s Hok) as (c' & -> & _). reflexivity.
Qed.

(** ---- nothing undefined is reached when the state is read ---- *)
Lemma substr_se_0 ci en : snd (substr_se ci 0 en) = true.
Proof. unfold substr_se. cbn [Nat.ltb Nat.leb]. reflexivity. Qed.

Lemma preedit_ok_one ci fi caret g :
  pa_ok (preedit_step ci fi caret true (mkPacc [] None 0 (Some 0) 0 true) g) = true.
Proof.
  unfold preedit_step. cbn [pa_end pa_text pa_caret pa_sel_start pa_sel_end pa_ok negb].
  pose proof (substr_se_0 ci (s_end g)) as Hs. destruct (substr_se ci 0 (s_end g)) as [t ok]. cbn in Hs. subst ok.
  destruct (caret =? 0); cbn [pa_end pa_text pa_caret pa_sel_start pa_sel_end pa_ok];
    destruct (selected_cand g) as [cd|]; cbn [pa_sel_end pa_ok];
      try (destruct (c_preedit cd) as [|x r]; cbn [pa_sel_end pa_ok];
           try (destruct (find_byte byte_tab (x :: r)); cbn [pa_sel_end pa_ok pa_text];
                try (destruct ((caret =? c_end cd) && (c_end cd =? length fi)); cbn [pa_sel_end pa_ok])));
      reflexivity.
Qed.

Lemma comp_preedit_ok sg fi caret cs :
  pe_ok (comp_preedit sg fi caret cs)
  = pa_ok (preedit_loop (sg_input sg) fi caret (segs_fwd sg) (mkPacc [] None 0 (Some 0) 0 true)).
Proof.
  unfold comp_preedit. cbv zeta.
  set (a := preedit_loop (sg_input sg) fi caret (segs_fwd sg) (mkPacc [] None 0 (Some 0) 0 true)).
  destruct (pa_end a <? length (sg_input sg)); cbn [pa_ok pa_end pa_text pa_caret pa_sel_start pa_sel_end];
    destruct (cs ++ comp_prompt sg); reflexivity.
Qed.

Lemma view_ok s : ctx_ok (st_ctx s) -> snd (view_of cfg s) = None.
Proof.
  intros (He & Hl & Hc & Ho & Hs & Hn). unfold view_of.
  assert (Hpe : pe_ok (ctx_preedit (st_ctx s)) = true).
  { unfold ctx_preedit. rewrite comp_preedit_ok. unfold segs_fwd.
    destruct Hs as [-> | (g & -> & _)]; cbn [rev app preedit_loop]; [reflexivity|].
    apply preedit_ok_one. }
  assert (Hct : snd (ctx_commit_text (st_ctx s)) = true).
  { unfold ctx_commit_text, get_option. rewrite Ho. unfold init_opts. cbn [opts_get].
    change (bytes_eqb opt_auto_commit opt_dumb) with false. cbn [opts_get].
    unfold comp_commit_text, segs_fwd.
    destruct Hs as [-> | (g & -> & (G0 & _))]; cbn [rev app commit_text_loop]; [reflexivity|].
    destruct (selected_cand g); [reflexivity|]. destruct (has_tag TPhony (s_tags g)); [reflexivity|].
    rewrite G0. pose proof (substr_se_0 (sg_input (cx_comp (st_ctx s))) (s_end g)) as Hs0.
    destruct (substr_se _ 0 (s_end g)) as [t ok]. cbn in Hs0. subst ok. reflexivity. }
  assert (Hmv : snd (menu_view cfg (st_ctx s)) = true).
  { unfold menu_view. destruct (negb (has_menu (st_ctx s))); [reflexivity|].
    destruct Hs as [-> | (g & -> & (_ & _ & _ & G3))]; [reflexivity|].
    destruct (s_menu g) as [m|]; [|reflexivity]. rewrite G3.
    rewrite Hpsz, ?Hsk.
    change (int_of_size 0) with 0%Z. change (Z.quot 0 5) with 0%Z.
    change (size_of_int 5) with 5%N. change (size_of_int 0) with 0%N.
    unfold create_page. change (size_wrap (5 * 0)) with 0%N. change (size_wrap (0 + 5)) with 5%N.
    destruct (menu_count m <? 5)%N.
    - destruct (menu_count m <=? 0)%N; reflexivity.
    - change (5 <=? 0)%N with false. reflexivity. }
  destruct (ctx_commit_text (st_ctx s)) as [pv ok2]. cbn [snd] in Hct. subst ok2.
  destruct (menu_view cfg (st_ctx s)) as [mv ok3]. cbn [snd] in Hmv. subst ok3.
  cbn [snd]. rewrite Hpe. cbn [andb negb]. rewrite andb_false_r. reflexivity.
Qed.

(** ---- one key ---- *)
Definition good (s : state) (b : buf) : Prop :=
  ctx_is (st_ctx s) (b_text b) (b_caret b) /\ st_commit s = [].

Lemma special_of k : ekey_is_letter k = false -> special (key_code_of k).
Proof. destruct k; cbn; intros H; try discriminate H; unfold special; cbn; auto 10. Qed.

Lemma nav_find_k k :
  ekey_is_letter k = false ->
  keymap_find (keymap_of_binds nav_horizontal_binds) (mkKey (key_code_of k) 0) =
  match k with
  | EkLeft => Some NavLeftByChar | EkRight => Some NavRightByChar
  | EkHome => Some NavHome | EkEnd => Some NavEnd | _ => None
  end.
Proof. destruct k; cbn [ekey_is_letter]; intros H; try discriminate H; vm_compute; reflexivity. Qed.

Lemma ed_find_k k :
  ekey_is_letter k = false ->
  keymap_find (editor_keymap cfg) (mkKey (key_code_of k) 0) =
  match k with
  | EkBackSpace => Some (if fluid then EdBackToPreviousInput else EdRevertLastEdit)
  | EkDelete => Some EdDeleteChar | EkEscape => Some EdCancelComposition | _ => None
  end.
Proof.
  intros H. rewrite (ed_find_special _ (special_of k H)).
  destruct k; cbn [ekey_is_letter] in H; try discriminate H; reflexivity.
Qed.

Lemma shape_noop s k : ctx_ok (st_ctx s) -> shape_process s k = (s, PNoop).
Proof. intros Hok. unfold shape_process. rewrite (opts_init_full_shape _ (proj1 (proj2 (proj2 (proj2 Hok))))). reflexivity. Qed.

(** the chain: the punctuator (second chain) declines every key of the alphabet that reaches it *)
Lemma punctuator_nonletter s code : (127 <= code)%Z -> punctuator_process cfg translate s (mkKey code 0) = (s, PNoop).
Proof.
  intros H. unfold punctuator_process. cbn [k_release k_ctrl k_alt k_super k_mod k_code Z.testbit orb].
  replace (127 <=? code)%Z with true by (symmetry; apply Z.leb_le; assumption).
  now rewrite orb_true_r.
Qed.

Definition chain4 : list (state -> key -> state * presult) :=
  [speller_process cfg translate; selector_process cfg translate; navigator_process cfg translate; editor_process cfg translate].

(** ProcessKey over the four-processor chain: what every chain of [edit_chain] reduces to for the keys of the alphabet *)
Definition pk4 (s : state) (k : key) : state * bool :=
  let (s1, ret) := run_processors chain4 s k in
  match ret with
  | PAccepted => (s1, true)
  | _ =>
    let s1 := on_ctx s1 (fun c => ctx_with_hist c (hist_push_key (cx_hist c) k)) in
    let (s2, ret2) := shape_process s1 k in
    match ret2 with PAccepted => (s2, true) | _ => (s2, false) end
  end.

(** the ascii composer, when it stands in front, lets every key of the alphabet through (ascii_mode is off) and only
    clears its pressed-flags *)
Definition set_kb_last (x : state) (v : Z) : state :=
  mkSt (st_ctx x) (st_nav_input x) (st_spans x) (st_commit x) (st_odd x) v (st_ac x) (st_clock x).
Definition kb_on : bool := has_kb cfg && negb (match cf_bindings cfg with [] => true | _ => false end).
Definition pre (s : state) (code : Z) : state :=
  let s1 := if has_ac cfg then ac_unpress s else s in
  if kb_on then set_kb_last s1 code else s1.

Lemma c05_special code : special code -> c05_code code.
Proof. intros H. right. exact H. Qed.

Lemma ascii_noop s code :
  c05_code code -> get_option (st_ctx s) opt_ascii_mode = false ->
  ascii_composer_process cfg translate s (mkKey code 0) = (ac_unpress s, PNoop).
Proof.
  intros Hc Ha. unfold ascii_composer_process.
  cbn [k_shift k_ctrl k_alt k_super k_release k_mod k_code Z.testbit andb orb].
  assert (Hne : forall x, In x [XK_Caps_Lock; XK_Eisu_toggle; XK_Shift_L; XK_Shift_R; XK_Control_L; XK_Control_R] -> (code =? x)%Z = false).
  { intros x Hx. apply Z.eqb_neq. intros ->. destruct Hc as [Hc | Hc].
    - repeat (destruct Hx as [<- | Hx]; [vm_compute in Hc; destruct Hc as [A B]; try (apply A; reflexivity); try (apply B; reflexivity)|]); destruct Hx.
    - repeat (destruct Hx as [<- | Hx]; [repeat (destruct Hc as [Hc | Hc]; [discriminate Hc|]); destruct Hc|]); destruct Hx. }
  assert (Hcaps : (if ac_style_is_noop (ac_caps_style cfg) then (s, PNoop) else ac_process_caps_lock cfg translate s (mkKey code 0)) = (s, PNoop)).
  { destruct (ac_style_is_noop (ac_caps_style cfg)); [reflexivity|]. unfold ac_process_caps_lock. cbn [k_code k_caps k_mod Z.testbit].
    rewrite (Hne XK_Caps_Lock) by (cbn; auto). reflexivity. }
  rewrite Hcaps. cbn [presult_is_noop negb].
  rewrite (Hne XK_Eisu_toggle) by (cbn; auto 10). cbv zeta.
  rewrite (Hne XK_Shift_L), (Hne XK_Shift_R), (Hne XK_Control_L), (Hne XK_Control_R) by (cbn; auto 10).
  cbn [orb andb]. change (st_ctx (ac_unpress s)) with (st_ctx s). rewrite Ha. reflexivity.
Qed.

(** the key binder, when it stands in the chain, has no binding for a key of the alphabet: it only records the key
    (ReinterpretPagingKey's special case needs a period as the previous key, which the alphabet does not have) *)
Lemma kb_noop R s code :
  c05_code code -> has_kb cfg = true -> (st_kb_last s =? 46)%Z = false ->
  key_binder_process cfg translate R false s (mkKey code 0) = ((if kb_on then set_kb_last s code else s), PNoop).
Proof.
  intros Hc Hk Hl. unfold key_binder_process, kb_on. rewrite Hk. cbn [orb andb].
  destruct (cf_bindings cfg) as [|b0 bs] eqn:Eb; [reflexivity|]. cbn [negb].
  unfold reinterpret_paging_key. cbn [k_release k_mod k_code Z.testbit Z.eqb].
  assert (H46 : (code =? 46)%Z = false).
  { apply Z.eqb_neq. intros ->. destruct Hc as [Hc | Hc]; [lia|]. repeat (destruct Hc as [Hc | Hc]; [discriminate Hc|]). destruct Hc. }
  rewrite H46, Hl. cbn [andb]. fold (set_kb_last s code).
  rewrite (Hnab Hk code Hc). reflexivity.
Qed.

Lemma run_chain R s code :
  c05_code code -> get_option (st_ctx s) opt_ascii_mode = false -> (st_kb_last s =? 46)%Z = false ->
  (forall s', punctuator_process cfg translate s' (mkKey code 0) = (s', PNoop)) \/
  (exists s', speller_process cfg translate (pre s code) (mkKey code 0) = (s', PAccepted)) ->
  run_processors (processors cfg translate (key_binder_process cfg translate R false)) s (mkKey code 0)
  = run_processors chain4 (pre s code) (mkKey code 0).
Proof.
  intros Hc Ha Hl H. pose proof (kb_noop R) as Hkbn. clearbody Halpha Hdelims Hinitials Hfinals Husp Hpsz Hsk Hnab Hchain. unfold processors, pre.
  set (kb := key_binder_process cfg translate R false).
  set (s1 := if has_ac cfg then ac_unpress s else s).
  assert (Hl1 : (st_kb_last s1 =? 46)%Z = false) by (subst s1; destruct (has_ac cfg); exact Hl).
  assert (Hpre : forall rest, run_processors (map (proc_of cfg translate kb) (ac_pre cfg ++ rest)) s (mkKey code 0)
                            = run_processors (map (proc_of cfg translate kb) rest) s1 (mkKey code 0)).
  { intros rest. unfold ac_pre. subst s1. destruct (has_ac cfg); [|reflexivity].
    cbn [app map proc_of run_processors]. rewrite (ascii_noop s code Hc Ha). reflexivity. }
  assert (Hkb : forall rest, run_processors (map (proc_of cfg translate kb) (kb_pre cfg ++ rest)) s1 (mkKey code 0)
                           = run_processors (map (proc_of cfg translate kb) rest) (if kb_on then set_kb_last s1 code else s1) (mkKey code 0)).
  { intros rest. unfold kb_pre. destruct (has_kb cfg) eqn:Ek.
    - cbn [app map proc_of run_processors]. subst kb. rewrite (Hkbn s1 code Hc eq_refl Hl1). reflexivity.
    - unfold kb_on. rewrite Ek. reflexivity. }
  unfold chain4. destruct Hchain as [(-> & _) | (-> & _)]; rewrite Hpre, Hkb; [reflexivity|].
  cbn [map proc_of run_processors]. fold s1. change (if kb_on then set_kb_last s1 code else s1) with (pre s code) in *.
  destruct H as [Hn | (s' & ->)]; [|reflexivity].
  destruct (speller_process cfg translate (pre s code) (mkKey code 0)) as [s2 r1]. destruct r1; try reflexivity. rewrite Hn. reflexivity.
Qed.

Lemma pk4_ok s b k :
  good s b -> ekey_ok cfg k = true ->
  good (fst (pk4 s (mkKey (key_code_of k) 0))) (buf_step b k) /\
  snd (pk4 s (mkKey (key_code_of k) 0)) = handled_spec b k.
Proof.
  intros ((Hok & Hin & Hca) & Hcm) Hk.
  destruct b as [t c]. cbn [b_text b_caret] in Hin, Hca. subst t c.
  set (inp := cx_input (st_ctx s)) in *. set (car := cx_caret (st_ctx s)) in *.
  destruct (ekey_is_letter k) eqn:Elet.
  - (* a spelling letter: the speller accepts *)
    destruct k as [ch| | | | | | |]; try discriminate Elet.
    assert (Hch : letter ch).
    { unfold ekey_ok in Hk. rewrite Halpha, Hinitials in Hk.
      apply andb_prop in Hk. apply Hk. }
    unfold pk4.
    unfold chain4. cbn [run_processors key_code_of].
    rewrite (speller_letter s ch Hch). cbv beta iota. cbn [fst snd].
    destruct (push_input_ok (st_ctx s) ch Hok Hch) as (P1 & P2 & P3).
    assert (Hbe : begin_editing (push_input cfg translate (st_ctx s) ch) = push_input cfg translate (st_ctx s) ch)
      by (apply begin_editing_ok; apply P1).
    unfold on_ctx. rewrite Hbe. split.
    + split; [|exact Hcm]. cbn [st_with_ctx st_ctx buf_step b_text b_caret].
      split; [exact P1|]. split; [exact P2 | exact P3].
    + unfold handled_spec. cbn [ekey_is_letter]. now rewrite orb_true_r.
  - (* one of the seven other keys *)
    pose proof (special_of k Elet) as Hsp.
    assert (Hcar : car <= length inp) by apply Hok.
    unfold pk4.
    unfold chain4. cbn [run_processors].
    rewrite (speller_nonletter s _ (special_ge _ Hsp)). cbv beta iota.
    rewrite (selector_special s _ Hok Hsp). cbv beta iota.
    rewrite (navigator_special s _ Hok Hsp), (nav_find_k k Elet).
    rewrite (composing_iff _ Hok). unfold handled_spec, buf_nonempty. rewrite Elet, orb_false_r.
    cbn [b_text]. fold inp.
    destruct (match inp with [] => true | _ :: _ => false end) eqn:Eemp; cbn [negb].
    + (* empty buffer: nobody handles the key *)
      assert (Ein : inp = []) by (destruct inp; [reflexivity | discriminate]).
      cbv beta iota. rewrite (editor_special s _ Hok Hsp), (composing_iff _ Hok). fold inp. rewrite Eemp. cbn [negb].
      cbv beta iota zeta.
      rewrite (shape_noop (on_ctx s (fun c => ctx_with_hist c (hist_push_key (cx_hist c) (mkKey (key_code_of k) 0)))) _ Hok).
      cbn [fst snd].
      assert (Hc0 : car = 0) by (rewrite Ein in Hcar; cbn in Hcar; lia).
      split; [|rewrite Ein; reflexivity].
      assert (Hst : buf_step (mkBuf inp car) k = mkBuf inp car).
      { rewrite Ein, Hc0. destruct k; try discriminate Elet; reflexivity. }
      rewrite Hst. split; [|exact Hcm]. split; [exact Hok | split; reflexivity].
    + (* composing *)
      assert (Hne : match inp with [] => false | _ :: _ => true end = true) by (destruct inp; [discriminate | reflexivity]).
      rewrite Hne.
      destruct k; try discriminate Elet.
      * (* BackSpace *)
        cbv beta iota. rewrite (editor_special s _ Hok Hsp), (composing_iff _ Hok). fold inp. rewrite Eemp. cbn [negb].
        rewrite (ed_find_k EkBackSpace eq_refl).
        rewrite (ed_backspace_ok s _ Hok) by (destruct fluid; auto). cbn [fst snd]. split; [|reflexivity].
        split; [|exact Hcm]. cbn [st_with_ctx st_ctx buf_step b_text b_caret].
        destruct (pop_input_ok _ Hok) as [(H0 & Hp) | (H0 & _ & P1 & P2 & P3)]; fold car in H0.
        -- rewrite Hp. cbn [fst]. rewrite H0. cbn [Nat.eqb]. split; [exact Hok | split; [reflexivity | exact H0]].
        -- replace (car =? 0) with false by (symmetry; apply Nat.eqb_neq; lia).
           cbn [b_text b_caret]. split; [exact P1 | split; [exact P2 | exact P3]].
      * (* Delete *)
        cbv beta iota. rewrite (editor_special s _ Hok Hsp), (composing_iff _ Hok). fold inp. rewrite Eemp. cbn [negb].
        rewrite (ed_find_k EkDelete eq_refl). cbn [run_editor_action fst snd]. split; [|reflexivity].
        split; [|exact Hcm]. unfold on_ctx. cbn [st_with_ctx st_ctx buf_step b_text b_caret].
        destruct (delete_input_ok _ Hok) as [(H0 & Hp) | (H0 & P1 & P2 & P3)]; fold car in H0; fold inp in H0.
        -- rewrite Hp. cbn [fst].
           replace (car <? length inp) with false by (symmetry; apply Nat.ltb_ge; exact H0).
           split; [exact Hok | split; reflexivity].
        -- replace (car <? length inp) with true by (symmetry; apply Nat.ltb_lt; exact H0).
           cbn [b_text b_caret]. split; [exact P1 | split; [exact P2 | exact P3]].
      * (* KP_Left *)
        cbn [fst snd]. destruct (nav_action_ok s NavLeftByChar Hok I) as (_ & N1 & N2).
        split; [|reflexivity]. split; [|rewrite N1; exact Hcm].
        cbn [buf_step b_text b_caret]. fold inp in N2. fold car in N2.
        destruct (car =? 0); exact N2.
      * (* KP_Right *)
        cbn [fst snd]. destruct (nav_action_ok s NavRightByChar Hok I) as (_ & N1 & N2).
        split; [|reflexivity]. split; [|rewrite N1; exact Hcm].
        cbn [buf_step b_text b_caret]. fold inp in N2. fold car in N2.
        destruct (length inp <=? car); exact N2.
      * (* Home *)
        cbn [fst snd]. destruct (nav_action_ok s NavHome Hok I) as (_ & N1 & N2).
        split; [|reflexivity]. split; [|rewrite N1; exact Hcm]. exact N2.
      * (* End *)
        cbn [fst snd]. destruct (nav_action_ok s NavEnd Hok I) as (_ & N1 & N2).
        split; [|reflexivity]. split; [|rewrite N1; exact Hcm]. exact N2.
      * (* Escape *)
        cbv beta iota. rewrite (editor_special s _ Hok Hsp), (composing_iff _ Hok). fold inp. rewrite Eemp. cbn [negb].
        rewrite (ed_find_k EkEscape eq_refl).
        destruct (ed_cancel_ok s Hok) as (c' & -> & Hc'). cbn [fst snd]. split; [|reflexivity].
        split; [exact Hc' | exact Hcm].
Qed.

(** ---- one API step, then any history ---- *)
Lemma view_fields s :
  let v := fst (view_of cfg s) in
  v_input v = cx_input (st_ctx s) /\ v_caret v = cx_caret (st_ctx s) /\ v_commit v = st_commit s.
Proof.
  unfold view_of. destruct (ctx_commit_text (st_ctx s)). destruct (menu_view cfg (st_ctx s)). cbn. auto.
Qed.

(** the key binder's last_key_ is never the period under the alphabet *)
Definition kb_ok (s : state) : Prop := (st_kb_last s =? 46)%Z = false.

Lemma key_code_c05 k : ekey_ok cfg k = true -> c05_code (key_code_of k).
Proof.
  intros Hk. destruct k as [ch| | | | | | |]; try (right; cbn; auto 10; fail).
  left. unfold ekey_ok in Hk. rewrite Halpha, Hinitials in Hk. apply andb_prop in Hk. apply letter_code, Hk.
Qed.
Lemma c05_not_period code : c05_code code -> (code =? 46)%Z = false.
Proof.
  intros Hc. apply Z.eqb_neq. intros ->. destruct Hc as [Hc | Hc]; [lia|].
  repeat (destruct Hc as [Hc | Hc]; [discriminate Hc|]). destruct Hc.
Qed.

Lemma pk4_kb v s k : kbv v s -> kbv v (fst (pk4 s k)).
Proof.
  intros H. unfold pk4.
  assert (H1 : kbv v (fst (run_processors chain4 s k))).
  { unfold chain4. cbn [run_processors].
    pose proof (speller_process_kb cfg translate v s k H) as A1. destruct (speller_process cfg translate s k) as [s1 r1]. cbn [fst] in A1.
    destruct r1; cbn [fst]; try exact A1.
    pose proof (selector_process_kb cfg translate v s1 k A1) as A2. destruct (selector_process cfg translate s1 k) as [s2 r2]. cbn [fst] in A2.
    destruct r2; cbn [fst]; try exact A2.
    pose proof (navigator_process_kb cfg translate v s2 k A2) as A3. destruct (navigator_process cfg translate s2 k) as [s3 r3]. cbn [fst] in A3.
    destruct r3; cbn [fst]; try exact A3.
    pose proof (editor_process_kb cfg translate v s3 k A3) as A4. destruct (editor_process cfg translate s3 k) as [s4 r4]. cbn [fst] in A4.
    destruct r4; exact A4. }
  destruct (run_processors chain4 s k) as [s1 ret]. cbn [fst] in H1.
  destruct ret; cbn [fst]; try exact H1;
    (pose proof (shape_process_kb v (on_ctx s1 (fun c => ctx_with_hist c (hist_push_key (cx_hist c) k))) k H1) as Hs;
     destruct (shape_process (on_ctx s1 (fun c => ctx_with_hist c (hist_push_key (cx_hist c) k))) k) as [sx rx];
     destruct rx; exact Hs).
Qed.

Lemma process_key_ok s b k :
  good s b -> kb_ok s -> ekey_ok cfg k = true ->
  (good (fst (process_key cfg translate s (mkKey (key_code_of k) 0))) (buf_step b k) /\
   kb_ok (fst (process_key cfg translate s (mkKey (key_code_of k) 0)))) /\
  snd (process_key cfg translate s (mkKey (key_code_of k) 0)) = handled_spec b k.
Proof.
  intros Hg Hkb Hk.
  pose proof (key_code_c05 k Hk) as Hc.
  set (code := key_code_of k) in *.
  assert (Hgp : good (pre s code) b).
  { unfold pre. destruct (has_ac cfg); destruct kb_on; exact Hg. }
  assert (Hkp : kb_ok (pre s code)).
  { unfold pre, kb_ok. destruct kb_on; [cbn [st_kb_last set_kb_last]; apply c05_not_period, Hc|].
    destruct (has_ac cfg); exact Hkb. }
  assert (Ha : get_option (st_ctx s) opt_ascii_mode = false).
  { destruct Hg as ((Hok & _) & _). unfold get_option. rewrite (proj1 (proj2 (proj2 (proj2 Hok)))). unfold init_opts.
    cbn [opts_get]. replace (bytes_eqb opt_auto_commit opt_ascii_mode) with false by reflexivity. reflexivity. }
  assert (Hrun : forall R, run_processors (processors cfg translate (key_binder_process cfg translate R false)) s (mkKey code 0)
                          = run_processors chain4 (pre s code) (mkKey code 0)).
  { intros R. destruct (ekey_is_letter k) eqn:Elet.
    - destruct k as [ch| | | | | | |]; try discriminate Elet.
      assert (Hch : letter ch).
      { unfold ekey_ok in Hk. rewrite Halpha, Hinitials in Hk. apply andb_prop in Hk. apply Hk. }
      apply run_chain; [exact Hc | exact Ha | exact Hkb|].
      right. eexists. apply (speller_letter (pre s code) ch Hch).
    - pose proof (special_of k Elet) as Hsp.
      apply run_chain; [exact Hc | exact Ha | exact Hkb|]. left. intros s'. apply punctuator_nonletter, special_ge, Hsp. }
  unfold process_key, kb_fuel. cbn [process_key_n]. unfold process_key_gen. rewrite Hrun.
  destruct (pk4_ok (pre s code) b k Hgp Hk) as (G & Hh). split; [split; [exact G|]|exact Hh].
  unfold kb_ok. pose proof (pk4_kb (st_kb_last (pre s code)) (pre s code) (mkKey code 0) eq_refl) as F.
  unfold kbv in F. fold (pk4 (pre s code) (mkKey code 0)). rewrite F. exact Hkp.
Qed.

Lemma step_key_ok s b k :
  good s b -> kb_ok s -> ekey_ok cfg k = true ->
  (good (fst (step cfg translate s (op_of_ekey k))) (buf_step b k) /\ kb_ok (fst (step cfg translate s (op_of_ekey k)))) /\
  edit_summary (snd (step cfg translate s (op_of_ekey k)))
  = Some (handled_spec b k, b_text (buf_step b k), b_caret (buf_step b k), []).
Proof.
  intros Hg Hkb Hk. destruct (process_key_ok s b k Hg Hkb Hk) as ((Hg' & Hkb') & Hh).
  unfold step. assert (He : cx_err (st_ctx s) = None) by apply Hg. rewrite He.
  unfold op_of_ekey. cbn [exec].
  destruct (process_key cfg translate s (mkKey (key_code_of k) 0)) as [s1 h] eqn:Ep. cbn [fst snd] in *.
  pose proof (view_ok s1 (proj1 (proj1 Hg'))) as Hv. pose proof (view_fields s1) as Hf.
  destruct (view_of cfg s1) as [v ve]. cbn [fst snd] in *. subst ve.
  assert (He1 : cx_err (st_ctx s1) = None) by apply Hg'. rewrite He1. cbn [fst snd edit_summary].
  split; [split; [exact Hg' | exact Hkb']|]. destruct Hf as (F1 & F2 & F3). destruct Hg' as ((_ & G1 & G2) & G3).
  rewrite F1, F2, F3, G1, G2, G3, Hh. reflexivity.
Qed.

Lemma run_keys_ok keys : forall s b,
  good s b -> kb_ok s -> Forall (fun k => ekey_ok cfg k = true) keys ->
  good (fst (run_from cfg translate s (map op_of_ekey keys))) (fold_left buf_step keys b) /\
  map edit_summary (snd (run_from cfg translate s (map op_of_ekey keys)))
  = map (fun x => Some (x, [])) (buf_trace b keys).
Proof.
  induction keys as [|k keys IH]; intros s b Hg Hkb Hk; [cbn; auto|].
  inversion Hk as [|? ? Hk1 Hk2]; subst.
  destruct (step_key_ok s b k Hg Hkb Hk1) as ((Hg1 & Hkb1) & Ho).
  cbn [map run_from fold_left buf_trace].
  destruct (step cfg translate s (op_of_ekey k)) as [s1 o1]. cbn [fst snd] in *.
  destruct (IH s1 (buf_step b k) Hg1 Hkb1 Hk2) as (Hg2 & Hos).
  destruct (run_from cfg translate s1 (map op_of_ekey keys)) as [s2 os]. cbn [fst snd map] in *.
  split; [exact Hg2|]. now rewrite Ho, Hos.
Qed.

Lemma init_good : good (init_state cfg) buf_empty.
Proof.
  unfold good, ctx_is, ctx_ok, init_state, init_opts. cbn.
  repeat split; auto. left; reflexivity.
Qed.

Theorem edit_refines_buffer_gen keys :
  Forall (fun k => ekey_ok cfg k = true) keys ->
  let r := run cfg translate (map op_of_ekey keys) in
  cx_input (st_ctx (fst r)) = b_text (buf_run keys) /\
  cx_caret (st_ctx (fst r)) = b_caret (buf_run keys) /\
  st_commit (fst r) = [] /\
  map edit_summary (snd r) = map (fun x => Some (x, [])) (buf_trace buf_empty keys).
Proof.
  intros Hk. destruct (run_keys_ok keys (init_state cfg) buf_empty init_good eq_refl Hk) as (((_ & G1 & G2) & G3) & Ho).
  unfold run, buf_run. cbv zeta. auto.
Qed.

End Edit.

(** the synthetic schemas are such configurations *)
Lemma synth_edit_cfg fluid dlog : edit_cfg (synth_cfg fluid dlog).
Proof. repeat (split; [reflexivity|]). split; [discriminate|]. left. split; reflexivity. Qed.

Lemma synth_no_letter_punct fluid dlog : no_letter_punct (synth_punct_cfg fluid dlog).
Proof.
  intros b Hb. unfold letter in Hb. destruct fluid; destruct b; vm_compute in Hb; try discriminate Hb; split; reflexivity.
Qed.
Lemma synth_punct_edit_cfg fluid dlog : edit_cfg (synth_punct_cfg fluid dlog).
Proof.
  repeat (split; [reflexivity|]). split; [discriminate|]. right. split; [reflexivity|]. split; [reflexivity|]. apply synth_no_letter_punct.
Qed.

Lemma synth_acedit_no_letter_punct fluid dlog : no_letter_punct (synth_acedit_cfg fluid dlog).
Proof.
  intros b Hb. unfold letter in Hb. destruct fluid; destruct b; vm_compute in Hb; try discriminate Hb; split; reflexivity.
Qed.
Lemma synth_acedit_edit_cfg fluid dlog : edit_cfg (synth_acedit_cfg fluid dlog).
Proof.
  repeat (split; [reflexivity|]). split; [discriminate|]. right. split; [reflexivity|]. split; [reflexivity|]. apply synth_acedit_no_letter_punct.
Qed.

(** a decision procedure for [no_alphabet_binding]: no binding accepts an unmodified key of the alphabet *)
Definition c05_codeb (code : Z) : bool :=
  ((97 <=? code) && (code <=? 122))%Z ||
  existsb (Z.eqb code) [XK_BackSpace; XK_Delete; XK_KP_Left; XK_KP_Right; XK_Home; XK_End; XK_Escape].
Lemma c05_codeb_spec code : c05_code code -> c05_codeb code = true.
Proof.
  intros [H | H]; unfold c05_codeb.
  - replace ((97 <=? code) && (code <=? 122))%Z with true; [reflexivity|]. symmetry. apply andb_true_iff. split; apply Z.leb_le; lia.
  - apply orb_true_iff. right. apply existsb_exists. exists code. split; [exact H | apply Z.eqb_refl].
Qed.
Lemma no_alphabet_binding_dec cfg :
  forallb (fun b => negb ((k_mod (kb_accept b) =? 0)%Z && c05_codeb (k_code (kb_accept b)))) (cf_bindings cfg) = true ->
  no_alphabet_binding cfg.
Proof.
  intros H code Hc. unfold kb_vector.
  assert (G : forall l v, forallb (fun b => negb ((k_mod (kb_accept b) =? 0)%Z && c05_codeb (k_code (kb_accept b)))) l = true ->
              fold_left (fun v b => if key_eqb (kb_accept b) (mkKey code 0) then kb_insert v b else v) l v = v).
  { induction l as [|b l IH]; intros v Hl; [reflexivity|]. cbn [forallb] in Hl. apply andb_prop in Hl as (Hb & Hl).
    cbn [fold_left]. replace (key_eqb (kb_accept b) (mkKey code 0)) with false; [apply IH, Hl|].
    symmetry. unfold key_eqb. cbn [k_code k_mod]. destruct (k_code (kb_accept b) =? code)%Z eqn:E1; [|reflexivity].
    destruct (k_mod (kb_accept b) =? 0)%Z eqn:E2; [|reflexivity]. exfalso.
    apply Z.eqb_eq in E1. rewrite E1, (c05_codeb_spec code Hc) in Hb. cbn in Hb. discriminate Hb. }
  apply G, H.
Qed.

(** the stock chain order with ascii_composer, key_binder and the punctuator (synth_ascii_express|fluid, synth_kb_express|fluid): their bindings
    (Control+letter, Tab, comma / period / minus / equal / bracketleft) accept no key of the alphabet *)
Lemma synth_ascii_edit_cfg fluid dlog : edit_cfg (synth_ascii_cfg fluid dlog).
Proof.
  repeat (split; [reflexivity|]). split; [intros _; apply no_alphabet_binding_dec; destruct fluid; vm_compute; reflexivity|].
  right. split; [reflexivity|]. split; [reflexivity|].
  intros b Hb. unfold letter in Hb. destruct fluid; destruct b; vm_compute in Hb; try discriminate Hb; split; reflexivity.
Qed.
Lemma synth_kb_edit_cfg fluid dlog : edit_cfg (synth_kb_cfg fluid dlog).
Proof.
  repeat (split; [reflexivity|]). split; [intros _; apply no_alphabet_binding_dec; destruct fluid; vm_compute; reflexivity|].
  right. split; [reflexivity|]. split; [reflexivity|].
  intros b Hb. unfold letter in Hb. destruct fluid; destruct b; vm_compute in Hb; try discriminate Hb; split; reflexivity.
Qed.

(** the statement as it was before the chains became configurable (synth_express / synth_fluid) *)
Theorem edit_refines_buffer (fluid dlog : bool) (translate : bytes -> seginfo -> list cand) keys :
  Forall (fun k => ekey_ok (synth_cfg fluid dlog) k = true) keys ->
  let r := run (synth_cfg fluid dlog) translate (map op_of_ekey keys) in
  cx_input (st_ctx (fst r)) = b_text (buf_run keys) /\
  cx_caret (st_ctx (fst r)) = b_caret (buf_run keys) /\
  st_commit (fst r) = [] /\
  map edit_summary (snd r) = map (fun x => Some (x, [])) (buf_trace buf_empty keys).
Proof. apply edit_refines_buffer_gen, synth_edit_cfg. Qed.

(** and with the punctuator, punct_segmentor and punct_translator in the chains
    (synth_punct_express / synth_punct_fluid) *)
Theorem edit_refines_buffer_punct (fluid dlog : bool) (translate : bytes -> seginfo -> list cand) keys :
  Forall (fun k => ekey_ok (synth_punct_cfg fluid dlog) k = true) keys ->
  let r := run (synth_punct_cfg fluid dlog) translate (map op_of_ekey keys) in
  cx_input (st_ctx (fst r)) = b_text (buf_run keys) /\
  cx_caret (st_ctx (fst r)) = b_caret (buf_run keys) /\
  st_commit (fst r) = [] /\
  map edit_summary (snd r) = map (fun x => Some (x, [])) (buf_trace buf_empty keys).
Proof. apply edit_refines_buffer_gen, synth_punct_edit_cfg. Qed.

(** round 4: with ascii_composer and ascii_segmentor at their stock positions around the punctuator chain *)
Theorem edit_refines_buffer_ascii (fluid dlog : bool) (translate : bytes -> seginfo -> list cand) keys :
  Forall (fun k => ekey_ok (synth_acedit_cfg fluid dlog) k = true) keys ->
  let r := run (synth_acedit_cfg fluid dlog) translate (map op_of_ekey keys) in
  cx_input (st_ctx (fst r)) = b_text (buf_run keys) /\
  cx_caret (st_ctx (fst r)) = b_caret (buf_run keys) /\
  st_commit (fst r) = [] /\
  map edit_summary (snd r) = map (fun x => Some (x, [])) (buf_trace buf_empty keys).
Proof. apply edit_refines_buffer_gen, synth_acedit_edit_cfg. Qed.

(** round 4: the stock chain order - ascii_composer, key_binder, speller, punctuator, selector, navigator, editor over
    ascii_segmentor, abc_segmentor, punct_segmentor, fallback_segmentor - with the 28 bindings of the synthetic schemas *)
Theorem edit_refines_buffer_stock_order (fluid dlog : bool) (translate : bytes -> seginfo -> list cand) keys :
  Forall (fun k => ekey_ok (synth_ascii_cfg fluid dlog) k = true) keys ->
  let r := run (synth_ascii_cfg fluid dlog) translate (map op_of_ekey keys) in
  cx_input (st_ctx (fst r)) = b_text (buf_run keys) /\
  cx_caret (st_ctx (fst r)) = b_caret (buf_run keys) /\
  st_commit (fst r) = [] /\
  map edit_summary (snd r) = map (fun x => Some (x, [])) (buf_trace buf_empty keys).
Proof. apply edit_refines_buffer_gen, synth_ascii_edit_cfg. Qed.
Theorem edit_refines_buffer_kb (fluid dlog : bool) (translate : bytes -> seginfo -> list cand) keys :
  Forall (fun k => ekey_ok (synth_kb_cfg fluid dlog) k = true) keys ->
  let r := run (synth_kb_cfg fluid dlog) translate (map op_of_ekey keys) in
  cx_input (st_ctx (fst r)) = b_text (buf_run keys) /\
  cx_caret (st_ctx (fst r)) = b_caret (buf_run keys) /\
  st_commit (fst r) = [] /\
  map edit_summary (snd r) = map (fun x => Some (x, [])) (buf_trace buf_empty keys).
Proof. apply edit_refines_buffer_gen, synth_kb_edit_cfg. Qed.
