(** Eng/Engine.v – the engine's Compose pipeline and the notifying member
    functions of Context.  Model only.

    Ported from src/rime/engine.cc (ConcreteEngine::{Compose,
    CalculateSegmentation, TranslateSegments, OnSelect, OnCommit,
    OnOptionUpdate, FormatText}), src/rime/gear/abc_segmentor.cc,
    src/rime/gear/fallback_segmentor.cc, src/rime/gear/shape.cc
    (ShapeFormatter) and the member functions of src/rime/context.cc that fire
    a notifier.  Signals are direct calls in connection order:
      update_notifier  -> ConcreteEngine::OnContextUpdate = Compose
      select_notifier  -> ConcreteEngine::OnSelect, then Navigator::OnSelect
      commit_notifier  -> ConcreteEngine::OnCommit (sink -> Session::OnCommit)
      delete_notifier  -> nobody (no Memory component in the modelled schemas)
    The segmentors of a round are [cf_segmentors cfg] (abc_segmentor,
    punct_segmentor of gear/punctuator.cc, fallback_segmentor).  CommitHistory is
    kept in the abstract form [Ctx.hist] (what punctuator.cc reads of it).
      option_update_notifier -> ConcreteEngine::OnOptionUpdate
    Not modelled (unobservable through the session API in the modelled
    schemas): message sinks, unhandled_key_notifier, the
    Switcher (no hot keys in the synthetic workspace, so it always returns
    kNoop).

    The schema-dependent parts enter as Section variables: [cfg] (speller /
    menu settings, editor flavour, two source facts) and
    [translate : bytes -> seginfo -> list cand], the complete candidate list
    the schema's translators yield for a segment's input string. *)
From Coq Require Import List Arith NArith ZArith Bool.
From Coq.Strings Require Import Byte.
From RimeV Require Import Base.Bytes Eng.Keys Eng.Cand Eng.Menu Eng.Segm Eng.Ctx.
Import ListNotations.

(** the components a schema lists under engine/processors, segmentors, translators
    (the ones this model knows; the Switcher, always first, is not listed) *)
Inductive proc_id := PSpeller | PPunctuator | PSelector | PNavigator | PEditor | PKeyBinder | PAsciiComposer.
Inductive segm_id := SgAbc | SgPunct | SgFallback | SgAscii.
Inductive trans_id := TrPunct | TrMain.   (* TrMain = the schema's other translator(s): Section variable [translate_main] of Trans.v *)

(** a punctuation definition (punctuator/half_shape, full_shape): a scalar, a
    list of scalars, or a map with the keys [commit] (scalar) and/or [pair] (list) *)
Inductive pdef :=
| PdValue (s : bytes)
| PdList (l : list bytes)
| PdMap (commit : option bytes) (pair : option (list bytes)).

(** key_binder/bindings (gear/key_binder.cc): [when], [accept] and one of send / send_sequence
    (a key sequence), toggle / set_option / unset_option (an option name), select (a schema id) *)
Inductive kb_when := KwPredicting | KwPaging | KwHasMenu | KwComposing | KwAlways.
Inductive kb_action :=
| KaSend (keys : list key)
| KaToggle (opt : bytes) | KaSet (opt : bytes) | KaUnset (opt : bytes)
| KaSelect (schema : bytes).
Record kbinding := mkKb { kb_accept : key; kb_whence : kb_when; kb_act : kb_action }.

(** ascii_composer/switch_key: what a mode-switch key does to the composition (gear/ascii_composer.h) *)
Inductive ac_style := AcInline | AcCommitText | AcCommitCode | AcClear | AcNoop.

Record config := mkCfg {
  cf_fluid : bool;            (* fluid_editor (true) or express_editor (false) *)
  cf_alphabet : bytes;        (* speller/alphabet *)
  cf_delims : bytes;          (* speller/delimiter *)
  cf_initials : bytes;        (* speller/initials (= alphabet when empty) *)
  cf_finals : bytes;          (* speller/finals *)
  cf_use_space : bool;        (* speller/use_space *)
  cf_page_size : Z;           (* menu/page_size, an int >= 1 *)
  cf_select_keys : bytes;     (* menu/alternative_select_keys *)
  cf_page_down_cycle : bool;  (* menu/page_down_cycle *)
  cf_del_checked : bool;      (* source fact: Context::DeleteCandidate looks the candidate up first *)
  cf_dlog : bool;             (* build fact: DLOG statements are evaluated (Debug build) *)
  cf_processors : list proc_id;   (* engine/processors *)
  cf_segmentors : list segm_id;   (* engine/segmentors *)
  cf_translators : list trans_id; (* engine/translators (read by Trans.v: all_translate) *)
  cf_punct_half : list (byte * pdef);  (* punctuator/half_shape: single printable ASCII keys *)
  cf_punct_full : list (byte * pdef);  (* punctuator/full_shape *)
  cf_punct_use_space : bool;      (* punctuator/use_space *)
  cf_digit_seps : bytes;          (* punctuator/digit_separators (default ",.:'") *)
  cf_digit_sep_commit : bool;     (* punctuator/digit_separator_action == "commit" *)
  cf_bindings : list kbinding;    (* key_binder/bindings, in the order of the list (after import_preset/patches) *)
  cf_kb_guard : bool;             (* source fact: KeyBinder replays the target keys with redirecting_ = true and declines every key while it is set *)
  cf_hist_guard : bool;           (* source fact: CommitHistory::Push(composition, input) never reads [last] after a later Push may have popped it *)
  cf_ascii_keys : list (Z * ac_style);  (* AsciiComposer::bindings_ after load_bindings: key code (no modifiers) -> style, noop entries dropped *)
  cf_good_old_caps : bool         (* ascii_composer/good_old_caps_lock *)
}.

(** the members of AsciiComposer other than [connection_] (kept in the context, see Ctx.cx_conn):
    shift_key_pressed_, ctrl_key_pressed_, toggle_with_caps_, toggle_expired_ (milliseconds of the
    state's clock) *)
Record acst := mkAc { ac_shift : bool; ac_ctrl : bool; ac_caps : bool; ac_expire : N }.

(** Session + engine + navigator state. *)
Record state := mkSt {
  st_ctx : context;
  st_nav_input : bytes;     (* Navigator::input_ *)
  st_spans : list nat;      (* Navigator::spans_ (sorted vertices) *)
  st_commit : bytes;        (* Session::commit_text_ *)
  st_odd : list (bool * byte * bool); (* Punctuator::oddness_: (definition = (full_shape?, key), oddness = 1) *)
  st_kb_last : Z;           (* KeyBinder::last_key_ *)
  st_ac : acst;             (* AsciiComposer *)
  st_clock : N              (* std::chrono::steady_clock::now() in milliseconds: an input (Api.OpTick) *)
}.

Definition st_with_ctx (s : state) (c : context) : state :=
  mkSt c (st_nav_input s) (st_spans s) (st_commit s) (st_odd s) (st_kb_last s) (st_ac s) (st_clock s).
Definition st_with_ac (s : state) (a : acst) : state :=
  mkSt (st_ctx s) (st_nav_input s) (st_spans s) (st_commit s) (st_odd s) (st_kb_last s) a (st_clock s).

Section Engine.
Variable cfg : config.
Variable translate : bytes -> seginfo -> list cand.

(** ---- abc_segmentor ---- *)
Fixpoint abc_scan (l : bytes) (first expecting_initial : bool) : nat :=
  match l with
  | [] => 0
  | b :: r =>
    let is_letter := mem_byte b (cf_alphabet cfg) in
    let is_delimiter := negb first && mem_byte b (cf_delims cfg) in
    if negb is_letter && negb is_delimiter then 0
    else
      let is_initial := mem_byte b (cf_initials cfg) in
      let is_final := mem_byte b (cf_finals cfg) in
      if expecting_initial && negb is_initial && negb is_delimiter then 0
      else S (abc_scan r false (is_final || is_delimiter))
  end.

Definition abc_proceed (sg : segmentation) : segmentation :=
  let j := cur_start sg in
  let k := j + abc_scan (skipn j (sg_input sg)) true true in
  if j <? k
  then fst (add_segment sg (seg_with_tags (new_segment j k) [TAbc]))
  else sg.

(** ---- fallback_segmentor ---- (its result is always [false]: end the round) *)
Definition fallback_proceed (sg : segmentation) : segmentation :=
  if 0 <? cur_len sg then sg
  else
    let k := cur_start sg in
    if k =? length (sg_input sg) then sg
    else
      let sg1 := match sg_segs sg with
                 | g :: _ => if s_start g =? s_end g then sg_pop_back sg else sg
                 | [] => sg
                 end in
      match sg_segs sg1 with
      | last :: r =>
        if has_tag TRaw (s_tags last)
        then sg_with_segs sg1 (seg_with_tags (seg_clear (seg_with_end last (S k))) [TRaw] :: r)
        else fst (add_segment (fst (forward sg1)) (seg_with_tags (new_segment k (S k)) [TRaw]))
      | [] => fst (add_segment (fst (forward sg1)) (seg_with_tags (new_segment k (S k)) [TRaw]))
      end.

(** ---- PunctConfig (punctuator.cc) ---- [LoadConfig] is called before every
    lookup, so the mapping in force is the one of the current [full_shape] option *)
Fixpoint pd_assoc (l : list (byte * pdef)) (b : byte) : option pdef :=
  match l with
  | [] => None
  | (k, d) :: r => if Byte.eqb k b then Some d else pd_assoc r b
  end.
Definition punct_lookup (opts : list (bytes * bool)) (b : byte) : option pdef :=
  pd_assoc (if opts_get opts opt_full_shape then cf_punct_full cfg else cf_punct_half cfg) b.
(** [char ch; ch < 0x20 || ch >= 0x7f] on a (signed) char *)
Definition printable (b : byte) : bool := let n := N_of_byte b in ((32 <=? n) && (n <? 127))%N.
Definition is_digit_separator (b : byte) : bool := mem_byte b (cf_digit_seps cfg).
(** [is_after_number(ctx)] *)
Definition is_after_number (h : hist) : bool :=
  match h with
  | Some (ty, d) => d && (bytes_eqb ty ty_thru || bytes_eqb ty ty_raw)
  | None => false
  end.

(** ---- PunctSegmentor::Proceed ---- second component: the return value
    ([false] = no other segmentor is asked in this round) *)
Definition punct_proceed (opts : list (bytes * bool)) (h : hist) (sg : segmentation) : segmentation * bool :=
  let k := cur_start sg in
  match nth_error (sg_input sg) k with
  | None => (sg, false)              (* k == input.length() *)
  | Some ch =>
    if negb (printable ch) then (sg, true)
    else match punct_lookup opts ch with
         | None => (sg, true)
         | Some _ =>
           let t := if (k =? 0) && is_digit_separator ch && is_after_number h then TPunctNumber else TPunct in
           (fst (add_segment sg (seg_with_tags (new_segment k (S k)) [t])), false)
         end
  end.

(** ---- AsciiSegmentor::Proceed (gear/ascii_segmentor.cc) ---- *)
Definition ascii_proceed (opts : list (bytes * bool)) (sg : segmentation) : segmentation * bool :=
  if negb (opts_get opts opt_ascii_mode) then (sg, true)
  else
    let j := cur_start sg in
    if j <? length (sg_input sg)
    then (fst (add_segment sg (seg_with_tags (new_segment j (length (sg_input sg))) [TRaw])), false)
    else (sg, false).

(** one round of the [for (auto& segmentor : segmentors_) if (!Proceed) break;] loop *)
Definition segmentor_proceed (opts : list (bytes * bool)) (h : hist) (i : segm_id) (sg : segmentation)
  : segmentation * bool :=
  match i with
  | SgAbc => (abc_proceed sg, true)
  | SgPunct => punct_proceed opts h sg
  | SgFallback => (fallback_proceed sg, false)
  | SgAscii => ascii_proceed opts sg
  end.
Fixpoint run_segmentors (opts : list (bytes * bool)) (h : hist) (l : list segm_id) (sg : segmentation) : segmentation :=
  match l with
  | [] => sg
  | i :: r => let (sg1, cont) := segmentor_proceed opts h i sg in
              if cont then run_segmentors opts h r sg1 else sg1
  end.
Definition seg_round (opts : list (bytes * bool)) (h : hist) (sg : segmentation) : segmentation :=
  run_segmentors opts h (cf_segmentors cfg) sg.

(** ---- ConcreteEngine::CalculateSegmentation ---- ([caret] is context_->caret_pos();
    [opts], [h]: the context's options and commit history, read by punct_segmentor) *)
Fixpoint calc_loop (opts : list (bytes * bool)) (h : hist) (fuel caret : nat) (sg : segmentation) : segmentation * bool :=
  if has_finished sg then (sg, true)
  else match fuel with
       | 0 => (sg, false)
       | S f =>
         let start_pos := cur_start sg in
         let sg2 := seg_round opts h sg in
         if start_pos =? cur_end sg2 then (sg2, true)
         else if caret <=? start_pos then (sg2, true)
         else calc_loop opts h f caret (if has_finished sg2 then sg2 else fst (forward sg2))
       end.

Definition calc_segmentation (opts : list (bytes * bool)) (h : hist) (caret : nat) (sg : segmentation) : segmentation * bool :=
  let (sg1, ok) := calc_loop opts h (S (length (sg_input sg))) caret sg in
  let sg2 := match sg_segs sg1 with
             | g :: _ => if has_tag TPlaceholder (s_tags g) then sg1 else fst (trim sg1)
             | [] => sg1
             end in
  let sg3 := match sg_segs sg2 with
             | g :: _ => if status_geb (s_status g) SSelected then fst (forward sg2) else sg2
             | [] => sg2
             end in
  (sg3, ok).

(** ---- ConcreteEngine::TranslateSegments ---- *)
Definition translate_one (opts : list (bytes * bool)) (inp : bytes) (g : segment) : segment * bool :=
  if status_geb (s_status g) SGuess then (g, true)
  else
    let (s, ok) := substr_se inp (s_start g) (s_end g) in
    (mkSeg SGuess (s_start g) (s_end g) (s_length g) (s_tags g)
           (Some (translate s (seg_info opts g))) 0%N (s_prompt g), ok).

Fixpoint translate_list (opts : list (bytes * bool)) (inp : bytes) (l : list segment) : list segment * bool :=
  match l with
  | [] => ([], true)
  | g :: r => let (g', ok1) := translate_one opts inp g in
              let (r', ok2) := translate_list opts inp r in (g' :: r', ok1 && ok2)
  end.

Definition translate_segs (opts : list (bytes * bool)) (sg : segmentation) : segmentation * bool :=
  let (l, ok) := translate_list opts (sg_input sg) (sg_segs sg) in (sg_with_segs sg l, ok).

(** ---- ConcreteEngine::Compose ---- *)
Definition compose_core (c : context) : context :=
  let active_input := firstn (cx_caret c) (cx_input c) in
  let sg := reset_input (cx_comp c) active_input in
  let sg := if (cx_caret c <? length (cx_input c)) && (cx_caret c =? confirmed_pos sg)
            then reset_input sg (cx_input c) else sg in
  let (sg1, okf) := calc_segmentation (cx_opts c) (cx_hist c) (cx_caret c) sg in
  let (sg2, oks) := translate_segs (cx_opts c) sg1 in
  ctx_check (ctx_check (ctx_with_comp c sg2) okf ErrFuel) oks ErrSubstr.

(** AsciiComposer::OnContextUpdate, the slot that SwitchAsciiMode(true, inline) connects to
    update_notifier_ ([cx_conn]): when the context has stopped composing it disconnects itself
    and leaves the temporary ascii mode.  [set_option] fires option_update_notifier_;
    ConcreteEngine::OnOptionUpdate does nothing to a context that is not composing. *)
Definition ac_on_update (c : context) : context :=
  if cx_conn c && negb (is_composing c)
  then ctx_with_opts (ctx_with_conn c false) (opts_set (cx_opts c) opt_ascii_mode false)
  else c.

(** update_notifier_(this): the slots in connection order - ConcreteEngine::OnContextUpdate
    (= Compose, connected by the engine's constructor), then the ascii composer's slot when it is
    connected.  The one direct call of Compose (ConcreteEngine::OnSelect, the segment ending
    before the end of the input) happens with a non-empty input, where the slot does nothing,
    so it is written with the same function. *)
Definition compose (c : context) : context := ac_on_update (compose_core c).

(** ---- Context members that end in update_notifier_(this) ---- *)
Definition push_input (c : context) (ch : byte) : context :=
  let inp := cx_input c in
  if length inp <=? cx_caret c
  then compose (ctx_with_input c (inp ++ [ch]) (S (length inp)))
  else compose (ctx_with_input c (firstn (cx_caret c) inp ++ ch :: skipn (cx_caret c) inp) (S (cx_caret c))).

Definition pop_input (c : context) (len : nat) : context * bool :=
  if cx_caret c <? len then (c, false)
  else
    let k := cx_caret c - len in
    (compose (ctx_with_input c (firstn k (cx_input c) ++ skipn (k + len) (cx_input c)) k), true).

Definition delete_input (c : context) (len : nat) : context * bool :=
  if length (cx_input c) <? cx_caret c + len then (c, false)
  else
    let k := cx_caret c in
    (compose (ctx_with_input c (firstn k (cx_input c) ++ skipn (k + len) (cx_input c)) k), true).

(** [Context::Clear]: [composition_.clear()] empties the vector but keeps
    Segmentation::input_ *)
Definition clear (c : context) : context :=
  compose (mkCtx [] 0 (sg_with_segs (cx_comp c) []) (cx_opts c) (cx_err c) (cx_hist c) (cx_conn c)).

Definition set_caret_pos (c : context) (pos : nat) : context :=
  compose (ctx_with_input c (cx_input c) (if length (cx_input c) <? pos then length (cx_input c) else pos)).

Definition set_input (c : context) (value : bytes) : context :=
  compose (ctx_with_input c value (length value)).

Definition reopen_previous_segment (c : context) : context * bool :=
  let (sg, trimmed) := trim (cx_comp c) in
  if trimmed then
    let sg' := match sg_segs sg with
               | g :: _ => if status_geb (s_status g) SSelected
                           then sg_set_back sg (fst (seg_reopen g (cx_caret c))) else sg
               | [] => sg
               end in
    (compose (ctx_with_comp c sg'), true)
  else (c, false).

Definition clear_previous_segment (c : context) : context * bool :=
  match sg_segs (cx_comp c) with
  | [] => (c, false)
  | g :: _ =>
    let wh := s_start g in
    if length (cx_input c) <=? wh then (c, false)
    else (set_input c (firstn wh (cx_input c)), true)
  end.

Fixpoint reopen_sel_rev (l : list segment) (caret : nat) : option (list segment) :=
  match l with
  | [] => None
  | g :: r =>
    match s_status g with
    | SConfirmed => None
    | SSelected => if has_tag TSelectedBeforeEditing (s_tags g) then None
                   else Some (fst (seg_reopen g caret) :: r)
    | _ => reopen_sel_rev r caret
    end
  end.

Definition reopen_previous_selection (c : context) : context * bool :=
  match reopen_sel_rev (sg_segs (cx_comp c)) (cx_caret c) with
  | Some l => (compose (ctx_with_comp c (sg_with_segs (cx_comp c) l)), true)
  | None => (c, false)
  end.

Definition refresh_non_confirmed (c : context) : context * bool :=
  let (c1, reverted) := clear_non_confirmed c in
  if reverted then (compose c1, true) else (c, false).

(** [Context::Highlight(index)].  [Prepare(index + 1)]: for [index = SIZE_MAX]
    the request wraps to 0 and C++ returns the number of candidates fetched so
    far, which this model does not track (Menu.v); the model then answers with
    the total count.  Generators keep [index < SIZE_MAX] for this call. *)
Definition highlight (c : context) (index : N) : context * bool :=
  match sg_segs (cx_comp c) with
  | [] => (c, false)
  | g :: _ =>
    match s_menu g with
    | None => (c, false)
    | Some m =>
      let requested := size_wrap (index + 1) in
      let count := if (requested =? 0)%N then menu_count m else menu_prepare m requested in
      let new_index := if (0 <? count)%N then N.min (count - 1) index else 0%N in
      if (s_sel g =? new_index)%N then (c, false)
      else (compose (ctx_with_comp c (sg_set_back (cx_comp c) (seg_with_sel g new_index))), true)
    end
  end.

(** [Context::set_option] + ConcreteEngine::OnOptionUpdate *)
Definition set_option (c : context) (name : bytes) (v : bool) : context :=
  let c1 := ctx_with_opts c (opts_set (cx_opts c) name v) in
  if is_composing c1 then fst (refresh_non_confirmed c1) else c1.

(** ---- ShapeFormatter::Format ---- ([char] is signed: bytes >= 0x80 are < 0x20) *)
Definition shape_outside (b : byte) : bool :=
  let n := N_of_byte b in ((n <? 32) || (126 <? n))%N.
Definition shape_wide (b : byte) : bytes :=
  let n := N_of_byte b in
  if (n =? 32)%N then [xe3; x80; x80]
  else if ((32 <? n) && (n <=? 126))%N
       then let ch := (n - 32)%N in [xef; byte_of_N (188 + ch / 64); byte_of_N (128 + ch mod 64)]
       else [b].
Definition format_text (c : context) (text : bytes) : bytes :=
  if negb (get_option c opt_full_shape) then text
  else if forallb shape_outside text then text
       else flat_map shape_wide text.

(** [Engine::sink_] -> Session::OnCommit *)
Definition sink (s : state) (text : bytes) : state :=
  mkSt (st_ctx s) (st_nav_input s) (st_spans s) (st_commit s ++ text) (st_odd s) (st_kb_last s) (st_ac s) (st_clock s).

(** [Context::Commit] with ConcreteEngine::OnCommit *)
Definition commit (s : state) : state * bool :=
  let c := st_ctx s in
  if negb (is_composing c) then (s, false)
  else
    (* OnCommit: commit_history().Push(composition, input) first *)
    let '(h, okh, live) := hist_push_comp (cf_hist_guard cfg) (cx_hist c) (cx_comp c) (cx_input c) in
    let c := ctx_check (ctx_check (ctx_with_hist c h) okh ErrSubstr) live ErrDangling in
    let (text, ok) := ctx_commit_text c in
    let s1 := sink (st_with_ctx s (ctx_check c ok ErrSubstr)) (format_text c text) in
    (st_with_ctx s1 (clear (st_ctx s1)), true).

(** ConcreteEngine::OnSelect followed by Navigator::OnSelect.  Callers
    guarantee a non-empty composition. *)
Definition on_select (s : state) : state :=
  let c := st_ctx s in
  let s' :=
    match sg_segs (cx_comp c) with
    | [] => st_with_ctx s (ctx_fail c ErrNullDeref)
    | g0 :: _ =>
      let g := seg_close g0 in
      if s_end g =? length (cx_input c) then
        let c1 := ctx_with_comp c (sg_set_back (cx_comp c) (seg_with_status g SConfirmed)) in
        if get_option c1 opt_auto_commit
        then fst (commit (st_with_ctx s c1))
        else st_with_ctx s (ctx_with_comp c1 (fst (forward (cx_comp c1))))
      else
        let reached_caret_pos := cx_caret c <=? s_end g in
        let c1 := ctx_with_comp c (fst (forward (sg_set_back (cx_comp c) g))) in
        if reached_caret_pos
        then st_with_ctx s (set_caret_pos c1 (length (cx_input c1)))
        else st_with_ctx s (compose c1)
    end in
  mkSt (st_ctx s') (st_nav_input s') [] (st_commit s') (st_odd s') (st_kb_last s') (st_ac s') (st_clock s').

(** [Context::Select(index)] *)
Definition select (s : state) (index : N) : state * bool :=
  let c := st_ctx s in
  match sg_segs (cx_comp c) with
  | [] => (s, false)
  | g :: _ =>
    match cand_at g index with
    | Some _ =>
      let g' := seg_with_status (seg_with_sel g index) SSelected in
      (on_select (st_with_ctx s (ctx_with_comp c (sg_set_back (cx_comp c) g'))), true)
    | None => (s, false)
    end
  end.

(** [Context::ConfirmCurrentSelection] *)
Definition confirm_current_selection (s : state) : state * bool :=
  let c := st_ctx s in
  match sg_segs (cx_comp c) with
  | [] => (s, false)
  | g :: _ =>
    let g' := seg_with_status g SSelected in
    let s1 := st_with_ctx s (ctx_with_comp c (sg_set_back (cx_comp c) g')) in
    match selected_cand g' with
    | Some _ => (on_select s1, true)
    | None => if s_end g' =? s_start g' then (s1, false) else (on_select s1, true)
    end
  end.

(** [Context::DeleteCandidate(index)], both shapes of the source (see
    gen/eng_facts.py): unchecked = the code before the repair of C02/C01. *)
Definition delete_candidate (s : state) (index : N) : state * bool :=
  let c := st_ctx s in
  match sg_segs (cx_comp c) with
  | [] => (s, false)
  | g :: _ =>
    if cf_del_checked cfg then
      match cand_at g index with
      | Some _ => (st_with_ctx s (ctx_with_comp c (sg_set_back (cx_comp c) (seg_with_sel g index))), true)
      | None => (s, false)
      end
    else
      let g' := seg_with_sel g index in
      let c1 := ctx_with_comp c (sg_set_back (cx_comp c) g') in
      let c2 := if cf_dlog cfg
                then match selected_cand g' with Some _ => c1 | None => ctx_fail c1 ErrNullDeref end
                else c1 in
      (st_with_ctx s c2, true)
  end.

(** [Context::DeleteCurrentSelection] *)
Definition delete_current_selection (s : state) : state * bool :=
  match sg_segs (cx_comp (st_ctx s)) with
  | [] => (s, false)
  | g :: _ => delete_candidate s (s_sel g)
  end.

End Engine.
