(** Eng/WfView.v – C02: Composition::GetPreedit always yields ordered ranges
    (0 <= sel_start <= sel_end <= length, cursor <= length), whatever the
    composition, input, caret and prompt.  Used by WfProofs.v. *)
From Coq Require Import List Arith NArith ZArith Bool Lia ZifyBool ZifyNat ZifyN.
From Coq.Strings Require Import Byte.
From RimeV Require Import Base.Bytes Base.ListX Eng.Keys Eng.Cand Eng.Menu Eng.Segm Eng.Ctx Eng.Engine Eng.Procs
     Eng.Api Eng.Spec.
Import ListNotations.

(** ---- Composition::GetPreedit: the ranges are ordered, whatever the composition ---- *)
Definition pacc_ok (a : pacc) : Prop :=
  match pa_sel_end a with
  | Some e => pa_sel_start a <= e /\ e <= length (pa_text a)
  | None => False
  end /\
  match pa_caret a with Some p => p <= length (pa_text a) | None => True end.

Lemma find_byte_lt b l p : find_byte b l = Some p -> p < length l.
Proof.
  revert p. induction l as [|x r IH]; intros p H; [discriminate|]. cbn [find_byte] in H.
  destruct (Byte.eqb x b); [injection H as <-; cbn; lia|].
  destruct (find_byte b r) as [q|]; [|discriminate]. injection H as <-. specialize (IH q eq_refl). cbn. lia.
Qed.

Lemma preedit_step_ok ci fi caret is_last a g : pacc_ok a -> pacc_ok (preedit_step ci fi caret is_last a g).
Proof.
  destruct a as [t cp ss se en ok]. unfold pacc_ok. cbn [pa_text pa_caret pa_sel_start pa_sel_end].
  intros (Hse & Hcp). destruct se as [e|]; [|contradiction].
  unfold preedit_step. cbn [pa_text pa_caret pa_sel_start pa_sel_end pa_end pa_ok].
  destruct (substr_se ci en (s_end g)) as [sub okk] eqn:Esub.
  destruct (caret =? en); cbn [pa_text pa_caret pa_sel_start pa_sel_end pa_end pa_ok];
    (destruct is_last; cbn [negb];
     [ (* highlighted segment *)
       destruct (selected_cand g) as [cd|];
       [ destruct (c_preedit cd) as [|x r] eqn:Epre;
         [ rewrite ?Esub; cbn [pa_text pa_caret pa_sel_start pa_sel_end]; rewrite ?app_length; repeat split; try lia;
           destruct cp; lia
         | destruct (find_byte byte_tab (x :: r)) as [p|] eqn:Ef;
           [ pose proof (find_byte_lt _ _ _ Ef) as Hp;
             destruct ((caret =? c_end cd) && (c_end cd =? length fi));
             cbn [pa_text pa_caret pa_sel_start pa_sel_end]; rewrite ?app_length, ?firstn_length; repeat split; try lia;
             destruct cp; lia
           | cbn [pa_text pa_caret pa_sel_start pa_sel_end]; rewrite ?app_length; repeat split; try lia; destruct cp; lia ] ]
       | rewrite ?Esub; cbn [pa_text pa_caret pa_sel_start pa_sel_end]; rewrite ?app_length; repeat split; try lia;
         destruct cp; lia ]
     | (* converted segment *)
       destruct (selected_cand g) as [cd|];
       [ cbn [pa_text pa_caret pa_sel_start pa_sel_end]; rewrite ?app_length; repeat split; try lia; destruct cp; lia
       | destruct (has_tag TPhony (s_tags g)); rewrite ?Esub;
         cbn [pa_text pa_caret pa_sel_start pa_sel_end]; rewrite ?app_length; repeat split; try lia; destruct cp; lia ] ]).
Qed.

Lemma preedit_loop_ok ci fi caret segs a : pacc_ok a -> pacc_ok (preedit_loop ci fi caret segs a).
Proof.
  revert a. induction segs as [|g r IH]; intros a H; [exact H|]. cbn [preedit_loop]. apply IH, preedit_step_ok, H.
Qed.

Lemma comp_preedit_wf sg fi caret cs : wf_preeditb (comp_preedit sg fi caret cs) = true.
Proof.
  unfold comp_preedit. cbv zeta.
  assert (H0 : pacc_ok (mkPacc [] None 0 (Some 0) 0 true)) by (unfold pacc_ok; cbn; lia).
  pose proof (preedit_loop_ok (sg_input sg) fi caret (segs_fwd sg) _ H0) as H.
  destruct (preedit_loop (sg_input sg) fi caret (segs_fwd sg) _) as [t cp ss se en ok].
  unfold pacc_ok in H. cbn [pa_text pa_caret pa_sel_start pa_sel_end] in H. destruct H as (Hse & Hcp).
  destruct se as [e|]; [|contradiction].
  unfold wf_preeditb.
  destruct (en <? length (sg_input sg)); cbn [pa_text pa_caret pa_sel_start pa_sel_end pa_end pa_ok];
    match goal with |- context [if ?b then _ ++ _ else _] => destruct b end;
    destruct (cs ++ comp_prompt sg) as [|x r]; cbn [pe_text pe_caret pe_sel_start pe_sel_end];
    destruct cp as [p|];
    cbv beta iota delta [pa_text pa_caret pa_sel_start pa_sel_end pa_end pa_ok pe_text pe_caret pe_sel_start pe_sel_end];
    repeat (rewrite app_length || rewrite firstn_length || rewrite skipn_length); cbn [length];
    repeat match goal with |- context [?a <? ?b] => destruct (a <? b) eqn:? end;
    repeat (rewrite app_length || rewrite firstn_length || rewrite skipn_length); cbn [length]; lia.
Qed.

