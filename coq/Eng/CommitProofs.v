(** Eng/CommitProofs.v – C03: what is committed is what was shown, and it is
    delivered exactly once.

    [commit_is_preview], [select_covering_rest]: statements about one call in
    ANY state (the preview, the commit handler and the selection all go
    through [Ctx.commit_text_loop]; the proofs show the three paths agree).
    [exactly_once]: queue refinement over all histories – every operation but
    get_commit only appends to Session::commit_text_, get_commit hands out the
    whole buffer and empties it. *)
From Coq Require Import List Arith NArith ZArith Bool Lia.
From Coq.Strings Require Import Byte.
From RimeV Require Import Base.Bytes Base.ListX Eng.Keys Eng.Cand Eng.Menu Eng.Segm Eng.Ctx Eng.Engine Eng.Procs
     Eng.Api Eng.Spec.
Import ListNotations.

Lemma commit_text_loop_app ci l1 l2 acc :
  commit_text_loop ci (l1 ++ l2) acc = commit_text_loop ci l2 (commit_text_loop ci l1 acc).
Proof.
  revert acc. induction l1 as [|g r IH]; intros [[res en] ok]; [reflexivity|]. cbn [app commit_text_loop]. apply IH.
Qed.

Definition op_eq_getcommit (o : op) : {o = OpGetCommit} + {o <> OpGetCommit}.
Proof. destruct o; try (right; discriminate). left; reflexivity. Defined.

Section Commit.
Variable cfg : config.
Variable translate : bytes -> seginfo -> list cand.

(** ---- after Clear the session does not compose ---- *)
Lemma ac_on_update_composing c : is_composing (ac_on_update c) = is_composing c.
Proof. unfold ac_on_update. destruct (cx_conn c && negb (is_composing c)); reflexivity. Qed.
Lemma ac_on_update_commit_text c : ctx_commit_text (ac_on_update c) = ctx_commit_text c \/ is_composing c = false.
Proof. unfold ac_on_update. destruct (is_composing c); [left|right; reflexivity]. rewrite andb_false_r. reflexivity. Qed.

Lemma clear_not_composing c : is_composing (clear cfg translate c) = false.
Proof.
  unfold clear, compose. rewrite ac_on_update_composing. unfold compose_core. cbn [cx_caret cx_input cx_comp firstn length Nat.ltb Nat.leb andb].
  unfold reset_input at 1. cbn [sg_with_segs sg_segs dispose Nat.ltb Nat.leb sg_input].
  cbn [calc_segmentation calc_loop has_finished cur_end sg_segs sg_input length Nat.leb fst snd].
  unfold translate_segs. cbn [sg_segs sg_input translate_list sg_with_segs].
  unfold ctx_check, is_composing. cbn. reflexivity.
Qed.

(** ---- Context::Commit: the record pushed onto the commit history first changes neither
    the commit text nor the formatter's options ---- *)
Lemma ctx_commit_text_ext c c' : cx_opts c' = cx_opts c -> cx_comp c' = cx_comp c -> ctx_commit_text c' = ctx_commit_text c.
Proof. intros E1 E2. unfold ctx_commit_text, get_option. rewrite E1, E2. reflexivity. Qed.
Lemma format_text_ext c c' t : cx_opts c' = cx_opts c -> format_text c' t = format_text c t.
Proof. intros E1. unfold format_text, get_option. rewrite E1. reflexivity. Qed.
Lemma ctx_check_opts c b e : cx_opts (ctx_check c b e) = cx_opts c.
Proof. destruct b; reflexivity. Qed.
Lemma ctx_check_comp c b e : cx_comp (ctx_check c b e) = cx_comp c.
Proof. destruct b; reflexivity. Qed.

Lemma commit_composing s :
  is_composing (st_ctx s) = true ->
  st_commit (fst (commit cfg translate s))
  = st_commit s ++ format_text (st_ctx s) (fst (ctx_commit_text (st_ctx s))) /\
  is_composing (st_ctx (fst (commit cfg translate s))) = false.
Proof.
  intros Hc. unfold commit. rewrite Hc. cbn [negb].
  destruct (hist_push_comp (cf_hist_guard cfg) (cx_hist (st_ctx s)) (cx_comp (st_ctx s)) (cx_input (st_ctx s))) as [[h okh] live].
  set (c1 := ctx_check (ctx_check (ctx_with_hist (st_ctx s) h) okh ErrSubstr) live ErrDangling).
  assert (Eo : cx_opts c1 = cx_opts (st_ctx s)) by (unfold c1; rewrite !ctx_check_opts; reflexivity).
  assert (Ec : cx_comp c1 = cx_comp (st_ctx s)) by (unfold c1; rewrite !ctx_check_comp; reflexivity).
  rewrite (ctx_commit_text_ext (st_ctx s) c1 Eo Ec).
  destruct (ctx_commit_text (st_ctx s)) as [text ok]. rewrite (format_text_ext (st_ctx s) c1 _ Eo).
  cbn [fst st_commit st_ctx st_with_ctx sink].
  split; [reflexivity | apply clear_not_composing].
Qed.

(** ---- C03 (1): commit_composition delivers the preview reported just before ---- *)
Theorem commit_is_preview s :
  get_option (st_ctx s) opt_full_shape = false ->
  let v := fst (view_of cfg s) in
  let r := exec cfg translate s OpCommit in
  st_commit (fst r) = st_commit s ++ v_preview v /\
  is_composing (st_ctx (fst r)) = false /\
  snd r = RBool (negb (match st_commit (fst r) with [] => true | _ => false end)).
Proof.
  intros Hfs. cbn [exec fst snd]. unfold view_of.
  destruct (is_composing (st_ctx s)) eqn:Ec.
  - destruct (commit_composing s Ec) as (C1 & C2). rewrite C1, C2.
    destruct (ctx_commit_text (st_ctx s)) as [text ok] eqn:Et. destruct (menu_view cfg (st_ctx s)) as [mv ok3].
    cbn [fst v_preview]. unfold format_text. rewrite Hfs. cbn [negb].
    split; [reflexivity|]. split; reflexivity.
  - unfold commit. rewrite Ec. cbn [negb fst].
    destruct (ctx_commit_text (st_ctx s)) as [text ok] eqn:Et. destruct (menu_view cfg (st_ctx s)) as [mv ok3].
    cbn [fst v_preview]. rewrite app_nil_r. split; [reflexivity|]. split; [exact Ec | reflexivity].
Qed.

(** ---- the same call in ANY state, full-shape conversion on or off: what is delivered is the shape formatter's
    image of the preview reported just before (ShapeFormatter::Format: the identity with the option off) ---- *)
Theorem commit_any_shape s :
  let v := fst (view_of cfg s) in
  let r := exec cfg translate s OpCommit in
  st_commit (fst r) = st_commit s ++ (if is_composing (st_ctx s) then format_text (st_ctx s) (v_preview v) else []) /\
  is_composing (st_ctx (fst r)) = false.
Proof.
  cbn [exec fst snd]. unfold view_of.
  destruct (is_composing (st_ctx s)) eqn:Ec.
  - destruct (commit_composing s Ec) as (C1 & C2). rewrite C1, C2.
    destruct (ctx_commit_text (st_ctx s)) as [text ok] eqn:Et. destruct (menu_view cfg (st_ctx s)) as [mv ok3].
    cbn [fst v_preview]. split; reflexivity.
  - unfold commit. rewrite Ec. cbn [negb fst].
    destruct (ctx_commit_text (st_ctx s)) as [text ok] eqn:Et. destruct (menu_view cfg (st_ctx s)) as [mv ok3].
    rewrite app_nil_r. split; [reflexivity | exact Ec].
Qed.

(** ---- what the shape formatter does to a text: nothing unless it holds a printable ASCII byte (0x20 .. 0x7e), and
    then every such byte becomes its three-byte full-width form (U+3000 for the space, U+FF01 + (b - 0x21) otherwise)
    while every other byte - all of multi-byte UTF-8 - is kept: Chinese text is delivered as previewed in either mode ---- *)
Lemma flat_map_shape_wide_outside t : forallb shape_outside t = true -> flat_map shape_wide t = t.
Proof.
  induction t as [|b t IH]; [reflexivity|]. cbn [forallb flat_map]. intros H. apply andb_true_iff in H. destruct H as [Hb Ht].
  rewrite (IH Ht). unfold shape_wide, shape_outside in *.
  destruct (N.eqb_spec (N_of_byte b) 32) as [E|E]; [rewrite E in Hb; discriminate Hb|].
  destruct (N.ltb_spec 32 (N_of_byte b)) as [L1|L1]; destruct (N.leb_spec (N_of_byte b) 126) as [L2|L2]; cbn [andb]; try reflexivity.
  exfalso. apply orb_true_iff in Hb. destruct Hb as [Hb|Hb]; [apply N.ltb_lt in Hb | apply N.ltb_lt in Hb]; lia.
Qed.
Theorem format_text_no_ascii c t : forallb shape_outside t = true -> format_text c t = t.
Proof. intros H. unfold format_text. rewrite H. destruct (negb (get_option c opt_full_shape)); reflexivity. Qed.
Theorem format_text_length c t :
  length (format_text c t) = length t \/
  (get_option c opt_full_shape = true /\
   length (format_text c t) = length t + 2 * length (filter (fun b => negb (shape_outside b)) t)).
Proof.
  unfold format_text. destruct (get_option c opt_full_shape); cbn [negb]; [|left; reflexivity].
  destruct (forallb shape_outside t); [left; reflexivity|]. right. split; [reflexivity|].
  induction t as [|b t IH]; [reflexivity|]. cbn [flat_map filter]. rewrite app_length, IH.
  unfold shape_wide, shape_outside.
  destruct (N.eqb_spec (N_of_byte b) 32) as [E|E].
  - rewrite E. cbn. lia.
  - destruct (N.ltb_spec 32 (N_of_byte b)) as [L1|L1]; destruct (N.leb_spec (N_of_byte b) 126) as [L2|L2]; cbn [andb].
    + replace (N_of_byte b <? 32)%N with false by (symmetry; apply N.ltb_ge; lia).
      replace (126 <? N_of_byte b)%N with false by (symmetry; apply N.ltb_ge; lia). cbn. lia.
    + replace (126 <? N_of_byte b)%N with true by (symmetry; apply N.ltb_lt; lia). rewrite orb_true_r. cbn. lia.
    + replace (N_of_byte b <? 32)%N with true by (symmetry; apply N.ltb_lt; lia). cbn. lia.
    + replace (126 <? N_of_byte b)%N with true by (symmetry; apply N.ltb_lt; lia). rewrite orb_true_r. cbn. lia.
Qed.

(** ---- C03 (2): selecting a displayed candidate that covers the rest of the input ---- *)
(** after Segment::Close the segment ends at min (candidate end, segment end) *)
Definition covers_rest (c : context) (g : segment) (cd : cand) : Prop :=
  Nat.min (c_end cd) (s_end g) = length (cx_input c).

Lemma seg_close_selected g i cd :
  cand_at g i = Some cd ->
  let g' := seg_with_status (seg_with_sel g i) SSelected in
  selected_cand (seg_close g') = Some cd /\ s_end (seg_close g') = Nat.min (c_end cd) (s_end g) /\
  s_start (seg_close g') = s_start g /\ s_tags (seg_close g') = s_tags (seg_close g').
Proof.
  intros Hc. cbv zeta. unfold seg_close.
  assert (Hs : selected_cand (seg_with_status (seg_with_sel g i) SSelected) = Some cd) by exact Hc.
  rewrite Hs. cbn [s_end seg_with_status seg_with_sel].
  destruct (c_end cd <? s_end g) eqn:E.
  - apply Nat.ltb_lt in E. repeat split; auto. cbn. lia.
  - apply Nat.ltb_ge in E. repeat split; auto. cbn. lia.
Qed.

Lemma on_select_confirmed s1 g1 r :
  sg_segs (cx_comp (st_ctx s1)) = g1 :: r ->
  s_end (seg_close g1) = length (cx_input (st_ctx s1)) ->
  let c2 := ctx_with_comp (st_ctx s1)
              (sg_with_segs (cx_comp (st_ctx s1)) (seg_with_status (seg_close g1) SConfirmed :: r)) in
  let s' := if get_option (st_ctx s1) opt_auto_commit
            then fst (commit cfg translate (st_with_ctx s1 c2))
            else st_with_ctx s1 (ctx_with_comp c2 (fst (forward (cx_comp c2)))) in
  on_select cfg translate s1 = mkSt (st_ctx s') (st_nav_input s') [] (st_commit s') (st_odd s') (st_kb_last s') (st_ac s') (st_clock s').
Proof.
  intros Hsegs Hend. cbv zeta. unfold on_select. rewrite Hsegs, Hend, Nat.eqb_refl.
  unfold sg_set_back. rewrite Hsegs. reflexivity.
Qed.

(** the commit text of a composition whose last segment [g2] has the selected
    candidate [cd] reaching the end of the composition's input *)
Lemma commit_text_confirmed (c : context) ci g2 r cd l :
  selected_cand g2 = Some cd -> length ci <= c_end cd -> length ci <= s_end g2 ->
  (l = [] \/ l = [new_segment (s_end g2) (s_end g2)]) ->
  get_option c opt_dumb = false ->
  fst (ctx_commit_text (ctx_with_comp c (mkSegm ci (l ++ g2 :: r))))
  = fst (fst (commit_text_loop ci (rev r) ([], 0, true))) ++ c_text cd.
Proof.
  intros Hsel Hge1 Hge2 Hl Hdumb. unfold ctx_commit_text.
  change (get_option (ctx_with_comp c _) opt_dumb) with (get_option c opt_dumb). rewrite Hdumb.
  unfold comp_commit_text, segs_fwd. cbn [cx_comp ctx_with_comp sg_segs sg_input].
  rewrite rev_app_distr. cbn [rev]. rewrite <- app_assoc. cbn [app].
  rewrite commit_text_loop_app.
  destruct (commit_text_loop ci (rev r) ([], 0, true)) as [[tr enr] okr]. cbn [fst].
  rewrite (commit_text_loop_app ci [g2] (rev l)). cbn [commit_text_loop]. rewrite Hsel.
  destruct Hl as [-> | ->]; cbn [rev app commit_text_loop].
  - replace (c_end cd <? length ci) with false by (symmetry; apply Nat.ltb_ge; lia). reflexivity.
  - cbn [selected_cand cand_at new_segment s_menu has_tag s_tags existsb s_start s_end].
    unfold substr_se. destruct (length ci <? s_end g2); cbn [fst snd].
    + replace (s_end g2 <? length ci) with false by (symmetry; apply Nat.ltb_ge; lia).
      cbn [fst]. now rewrite app_nil_r.
    + rewrite Nat.leb_refl, Nat.sub_diag. cbn [firstn].
      replace (s_end g2 <? length ci) with false by (symmetry; apply Nat.ltb_ge; lia).
      cbn [fst]. now rewrite app_nil_r.
Qed.

Theorem select_covering_rest s g r i cd :
  sg_segs (cx_comp (st_ctx s)) = g :: r ->
  cand_at g i = Some cd ->
  covers_rest (st_ctx s) g cd ->
  length (sg_input (cx_comp (st_ctx s))) <= length (cx_input (st_ctx s)) ->
  get_option (st_ctx s) opt_dumb = false ->
  get_option (st_ctx s) opt_full_shape = false ->
  let confirmed := comp_confirmed_text (cx_comp (st_ctx s)) in
  let s' := fst (select cfg translate s i) in
  snd (select cfg translate s i) = true /\
  if get_option (st_ctx s) opt_auto_commit
  then st_commit s' = st_commit s ++ confirmed ++ c_text cd /\ is_composing (st_ctx s') = false
  else st_commit s' = st_commit s /\ fst (ctx_commit_text (st_ctx s')) = confirmed ++ c_text cd
       /\ is_composing (st_ctx s') = true.
Proof.
  intros Hsegs Hc Hcov Hlen Hdumb Hfs. cbv zeta. unfold select. rewrite Hsegs, Hc. cbn [fst snd].
  split; [reflexivity|].
  destruct (seg_close_selected g i cd Hc) as (Hsel & Hend & _). cbv zeta in Hsel, Hend.
  set (g' := seg_with_status (seg_with_sel g i) SSelected) in *.
  set (s1 := st_with_ctx s (ctx_with_comp (st_ctx s) (sg_set_back (cx_comp (st_ctx s)) g'))).
  assert (Hsegs1 : sg_segs (cx_comp (st_ctx s1)) = g' :: r).
  { unfold s1, sg_set_back. cbn. rewrite Hsegs. reflexivity. }
  unfold covers_rest in Hcov.
  assert (Hend1 : s_end (seg_close g') = length (cx_input (st_ctx s1))) by (rewrite Hend; exact Hcov).
  rewrite (on_select_confirmed s1 g' r Hsegs1 Hend1). cbv zeta.
  set (g2 := seg_with_status (seg_close g') SConfirmed).
  set (ci := sg_input (cx_comp (st_ctx s))) in *.
  assert (Hci : sg_with_segs (cx_comp (st_ctx s1)) (g2 :: r) = mkSegm ci (g2 :: r)).
  { unfold s1, sg_with_segs, sg_set_back. cbn. rewrite Hsegs. reflexivity. }
  rewrite Hci.
  assert (Hconf : comp_confirmed_text (cx_comp (st_ctx s)) = fst (fst (commit_text_loop ci (rev r) ([], 0, true)))).
  { unfold comp_confirmed_text. rewrite Hsegs. reflexivity. }
  assert (Hse2 : s_end g2 = length (cx_input (st_ctx s))) by (unfold g2; cbn [s_end seg_with_status]; lia).
  change (get_option (st_ctx s1) opt_auto_commit) with (get_option (st_ctx s) opt_auto_commit).
  destruct (get_option (st_ctx s) opt_auto_commit); cbn [st_ctx st_commit].
  - (* delivered at once *)
    assert (Hcomp : is_composing (st_ctx (st_with_ctx s1 (ctx_with_comp (st_ctx s1) (mkSegm ci (g2 :: r))))) = true).
    { unfold is_composing, sg_empty. cbn. now rewrite orb_true_r. }
    destruct (commit_composing _ Hcomp) as (C1 & C2). rewrite C1, C2. cbn [st_ctx st_with_ctx st_commit].
    pose proof (commit_text_confirmed (st_ctx s1) ci g2 r cd [] Hsel ltac:(lia) ltac:(lia) (or_introl eq_refl) Hdumb) as Ht.
    cbn [app] in Ht.
    destruct (ctx_commit_text (ctx_with_comp (st_ctx s1) (mkSegm ci (g2 :: r)))) as [text ok]. cbn [fst] in Ht. subst text.
    unfold format_text.
    change (get_option (ctx_with_comp (st_ctx s1) _) opt_full_shape) with (get_option (st_ctx s) opt_full_shape).
    rewrite Hfs. cbn [negb fst].
    rewrite Hconf. split; reflexivity.
  - (* reported as the new preview *)
    cbn [st_with_ctx st_commit st_ctx]. split; [reflexivity|].
    cbn [cx_comp ctx_with_comp].
    assert (Hfw : exists l, fst (forward (mkSegm ci (g2 :: r))) = mkSegm ci (l ++ g2 :: r) /\
                            (l = [] \/ l = [new_segment (s_end g2) (s_end g2)])).
    { unfold forward. cbn [sg_segs]. destruct (s_start g2 =? s_end g2); cbn [fst].
      - exists []. auto.
      - exists [new_segment (s_end g2) (s_end g2)]. auto. }
    destruct Hfw as (l & -> & Hlcase). split.
    + rewrite Hconf. apply (commit_text_confirmed _ ci g2 r cd l Hsel ltac:(lia) ltac:(lia) Hlcase). exact Hdumb.
    + unfold is_composing, sg_empty. cbn [cx_comp ctx_with_comp sg_segs]. destruct l; cbn; now rewrite orb_true_r.
Qed.

(** ---- C03 (3): exactly once, in order ---- *)
Definition appends (s s' : state) : Prop := exists d, st_commit s' = st_commit s ++ d.

Lemma appends_refl s : appends s s.
Proof. exists []. now rewrite app_nil_r. Qed.
Lemma appends_eq s s' : st_commit s' = st_commit s -> appends s s'.
Proof. intros H. exists []. now rewrite app_nil_r. Qed.
Lemma appends_trans a b c : appends a b -> appends b c -> appends a c.
Proof. intros (d1 & H1) (d2 & H2). exists (d1 ++ d2). now rewrite H2, H1, app_assoc. Qed.

(** a function "grows" when it only ever appends to the commit buffer *)
Definition grows (f : state -> state) : Prop := forall s, appends s (f s).

Lemma grows_comp f g : grows f -> grows g -> grows (fun s => g (f s)).
Proof. intros Hf Hg s. eapply appends_trans; [apply Hf | apply Hg]. Qed.

Lemma with_ctx_appends s c : appends s (st_with_ctx s c).
Proof. apply appends_eq. reflexivity. Qed.

Lemma on_ctx_b_appends s f : appends s (fst (on_ctx_b s f)).
Proof. unfold on_ctx_b. destruct (f (st_ctx s)). apply with_ctx_appends. Qed.

Lemma sink_appends s t : appends s (sink s t).
Proof. exists t. reflexivity. Qed.

Lemma commit_appends s : appends s (fst (commit cfg translate s)).
Proof.
  unfold commit. destruct (negb (is_composing (st_ctx s))); [apply appends_refl|].
  destruct (hist_push_comp _ _ _ _) as [[h okh] live].
  match goal with |- context [ctx_commit_text ?c] => destruct (ctx_commit_text c) as [t ok] end. cbn [fst]. eexists. reflexivity.
Qed.

Lemma on_select_appends s : appends s (on_select cfg translate s).
Proof.
  unfold on_select.
  match goal with |- appends s (mkSt (st_ctx ?x) _ _ (st_commit ?x) _ _ _ _) => assert (H : appends s x) end.
  { destruct (sg_segs (cx_comp (st_ctx s))) as [|g0 r]; [apply with_ctx_appends|].
    destruct (s_end (seg_close g0) =? length (cx_input (st_ctx s))).
    - match goal with |- context [if ?b then _ else _] => destruct b end;
        [eapply appends_trans; [|apply commit_appends]; apply with_ctx_appends | apply with_ctx_appends].
    - destruct (cx_caret (st_ctx s) <=? s_end (seg_close g0)); apply with_ctx_appends. }
  destruct H as (d & Hd). exists d. exact Hd.
Qed.

Lemma select_appends s i : appends s (fst (select cfg translate s i)).
Proof.
  unfold select. destruct (sg_segs (cx_comp (st_ctx s))) as [|g r]; [apply appends_refl|].
  destruct (cand_at g i); [|apply appends_refl]. cbn [fst].
  eapply appends_trans; [|apply on_select_appends]. apply with_ctx_appends.
Qed.

Lemma confirm_appends s : appends s (fst (confirm_current_selection cfg translate s)).
Proof.
  unfold confirm_current_selection. destruct (sg_segs (cx_comp (st_ctx s))) as [|g r]; [apply appends_refl|].
  destruct (selected_cand (seg_with_status g SSelected)); cbn [fst];
    [eapply appends_trans; [|apply on_select_appends]; apply with_ctx_appends|].
  destruct (s_end (seg_with_status g SSelected) =? s_start (seg_with_status g SSelected)); cbn [fst];
    [apply with_ctx_appends | eapply appends_trans; [|apply on_select_appends]; apply with_ctx_appends].
Qed.

Lemma delete_candidate_appends s i : appends s (fst (delete_candidate cfg s i)).
Proof.
  unfold delete_candidate. destruct (sg_segs (cx_comp (st_ctx s))) as [|g r]; [apply appends_refl|].
  destruct (cf_del_checked cfg); [destruct (cand_at g i); [apply with_ctx_appends | apply appends_refl]|].
  cbn [fst]. apply with_ctx_appends.
Qed.

Lemma delete_current_appends s : appends s (fst (delete_current_selection cfg s)).
Proof.
  unfold delete_current_selection. destruct (sg_segs (cx_comp (st_ctx s))); [apply appends_refl | apply delete_candidate_appends].
Qed.

(** generic: key-binding dispatch and [||] preserve any predicate the handlers preserve *)
Lemma kbp_process_P {A} (P : state -> Prop) (run : state -> A -> state * bool) km fb s k :
  (forall s a, P s -> P (fst (run s a))) -> P s -> P (fst (kbp_process run km fb s k)).
Proof.
  intros Hr H. unfold kbp_process.
  assert (Ha : forall s k, P s -> P (fst (kbp_accept run km s k))).
  { intros s0 k0 H0. unfold kbp_accept. destruct (keymap_find km k0); [apply Hr; exact H0 | exact H0]. }
  pose proof (Ha s k H) as H1. destruct (kbp_accept run km s k) as [s1 ok1]. cbn [fst] in H1.
  destruct ok1; [exact H1|]. destruct (k_ctrl k || k_alt k); [exact H1|].
  destruct (k_shift k && fb); [|exact H1].
  pose proof (Ha s1 (mkKey (k_code k) (shift_as_control (k_mod k))) H1) as H2.
  destruct (kbp_accept run km s1 _) as [s2 ok2]. cbn [fst] in H2. destruct ok2; [exact H2|].
  pose proof (Ha s2 (mkKey (k_code k) (clear_shift (k_mod k))) H2) as H3.
  destruct (kbp_accept run km s2 _) as [s3 ok3]. cbn [fst] in H3. destruct ok3; exact H3.
Qed.

Lemma or_else_P (P : state -> Prop) r f : P (fst r) -> (forall s, P s -> P (fst (f s))) -> P (fst (or_else r f)).
Proof. intros H Hf. unfold or_else. destruct r as [s ok]. destruct ok; [exact H | apply Hf, H]. Qed.

(** lifting "f only appends" to the predicate [appends s0] *)
Lemma lift s0 (f : state -> state) : (forall s, appends s (f s)) -> forall s, appends s0 s -> appends s0 (f s).
Proof. intros Hf s H. eapply appends_trans; [exact H | apply Hf]. Qed.

Lemma speller_appends s k : appends s (fst (speller_process cfg translate s k)).
Proof.
  unfold speller_process.
  repeat match goal with |- appends s (fst (if ?b then _ else _)) => destruct b; [apply appends_refl|] end.
  apply with_ctx_appends.
Qed.

Lemma run_sel_action_appends s a : appends s (fst (run_sel_action cfg s a)).
Proof. destruct a; cbn [run_sel_action]; try apply on_ctx_b_appends. apply appends_refl. Qed.

Lemma select_candidate_at_appends s i : appends s (fst (select_candidate_at cfg translate s i)).
Proof.
  unfold select_candidate_at. destruct (sg_segs (cx_comp (st_ctx s))); [apply appends_refl|].
  destruct (cf_page_size cfg <=? i)%Z; [apply appends_refl | apply select_appends].
Qed.

Lemma selector_appends s k : appends s (fst (selector_process cfg translate s k)).
Proof.
  unfold selector_process. destruct (k_release k || k_alt k || k_super k); [apply appends_refl|].
  destruct (sg_segs (cx_comp (st_ctx s))) as [|g r]; [apply appends_refl|].
  destruct ((match s_menu g with None => true | Some _ => false end) || has_tag TRaw (s_tags g)); [apply appends_refl|].
  pose proof (kbp_process_P (appends s) (run_sel_action cfg) (sel_keymap (st_ctx s)) false s k
                            (fun s1 a => lift s (fun x => fst (run_sel_action cfg x a)) (fun x => run_sel_action_appends x a) s1)
                            (appends_refl s)) as H1.
  destruct (kbp_process (run_sel_action cfg) (sel_keymap (st_ctx s)) false s k) as [s1 r1]. cbn [fst] in H1.
  destruct (negb (presult_is_noop r1)); [exact H1|].
  destruct (0 <=? select_key_index cfg k)%Z; [|exact H1].
  cbn [fst]. eapply appends_trans; [exact H1 | apply select_candidate_at_appends].
Qed.

Lemma begin_move_appends s : appends s (begin_move s).
Proof. unfold begin_move. match goal with |- context [if ?b then _ else _] => destruct b end; apply appends_eq; reflexivity. Qed.

Lemma caret_fns_append s :
  (forall p, appends s (fst (jump_left cfg translate s p))) /\ (forall p, appends s (fst (jump_right cfg translate s p))) /\
  appends s (fst (move_left cfg translate s)) /\ appends s (fst (move_right cfg translate s)) /\
  appends s (fst (go_home cfg translate s)) /\ appends s (fst (go_to_end cfg translate s)).
Proof.
  repeat split; intros; unfold jump_left, jump_right, move_left, move_right, go_home, go_to_end;
    repeat match goal with |- appends s (fst (if ?b then _ else _)) => destruct b end;
    cbn [fst]; try apply appends_refl; apply with_ctx_appends.
Qed.

Lemma go_to_end_appends s : appends s (fst (go_to_end cfg translate s)).
Proof. apply (caret_fns_append s). Qed.
Lemma go_home_appends s : appends s (fst (go_home cfg translate s)).
Proof. apply (caret_fns_append s). Qed.

Lemma run_nav_action_appends s a : appends s (fst (run_nav_action cfg translate s a)).
Proof.
  pose proof (begin_move_appends s) as Hb.
  assert (L : forall (f : state -> state * bool), (forall x, appends x (fst (f x))) ->
                                                  forall x, appends s x -> appends s (fst (f x)))
    by (intros f Hf x Hx; eapply appends_trans; [exact Hx | apply Hf]).
  assert (Hcf := caret_fns_append (begin_move s)). destruct Hcf as (C1 & C2 & C3 & C4 & C5 & C6).
  destruct a; cbn [run_nav_action fst]; try apply appends_refl.
  - apply or_else_P; [|apply (L _ go_to_end_appends)].
    destruct ((1 <? spans_count (st_spans (begin_move s))) && _); (eapply appends_trans; [exact Hb|]); [apply C1 | apply C3].
  - apply or_else_P; [eapply appends_trans; [exact Hb | apply C3] | apply (L _ go_to_end_appends)].
  - apply or_else_P; [eapply appends_trans; [exact Hb | apply C4] | apply (L _ go_home_appends)].
  - apply or_else_P; [eapply appends_trans; [exact Hb | apply C1] | apply (L _ go_to_end_appends)].
  - apply or_else_P; [eapply appends_trans; [exact Hb | apply C2] | apply (L _ go_to_end_appends)].
  - eapply appends_trans; [exact Hb | apply C5].
  - eapply appends_trans; [exact Hb | apply C6].
Qed.

Lemma navigator_appends s k : appends s (fst (navigator_process cfg translate s k)).
Proof.
  unfold navigator_process. destruct (k_release k); [apply appends_refl|].
  destruct (negb (is_composing (st_ctx s))); [apply appends_refl|].
  apply (kbp_process_P (appends s)); [|apply appends_refl].
  intros s1 a H1. eapply appends_trans; [exact H1 | apply run_nav_action_appends].
Qed.

Lemma ed_revert_appends s : appends s (ed_revert_last_edit cfg translate s).
Proof.
  unfold ed_revert_last_edit. apply or_else_P; [apply on_ctx_b_appends|].
  intros s1 H1.
  pose proof (on_ctx_b_appends s1 (fun c => pop_input cfg translate c 1)) as H2.
  destruct (on_ctx_b s1 (fun c => pop_input cfg translate c 1)) as [s2 ok]. cbn [fst] in H2.
  destruct ok; cbn [fst]; [|eapply appends_trans; eassumption].
  eapply appends_trans; [exact H1|]. eapply appends_trans; [exact H2 | apply on_ctx_b_appends].
Qed.

Lemma run_editor_action_appends s a : appends s (fst (run_editor_action cfg translate s a)).
Proof.
  assert (L : forall (f : state -> state * bool), (forall x, appends x (fst (f x))) ->
                                                  forall x, appends s x -> appends s (fst (f x)))
    by (intros f Hf x Hx; eapply appends_trans; [exact Hx | apply Hf]).
  destruct a; cbn [run_editor_action fst]; try apply appends_refl.
  - apply or_else_P; [apply confirm_appends | apply (L _ commit_appends)].
  - apply or_else_P; [apply on_ctx_b_appends | apply (L _ confirm_appends)].
  - destruct (ctx_selected_cand (st_ctx s)) as [cd|]; [|apply appends_refl].
    destruct (c_comment cd); [apply appends_refl|]. cbn [fst]. eexists. reflexivity.
  - eapply appends_trans; [|apply commit_appends]. apply with_ctx_appends.
  - destruct (comp_script_text (cx_comp (st_ctx s))) as [t ok]. cbn [fst]. eexists. reflexivity.
  - pose proof (confirm_appends s) as H1. destruct (confirm_current_selection cfg translate s) as [s1 ok]. cbn [fst] in H1.
    destruct (negb ok || negb (has_menu (st_ctx s1))); cbn [fst]; [|exact H1].
    eapply appends_trans; [exact H1 | apply commit_appends].
  - apply ed_revert_appends.
  - apply or_else_P; [apply or_else_P; [apply on_ctx_b_appends|]|].
    + intros x Hx. eapply appends_trans; [exact Hx | apply on_ctx_b_appends].
    + intros x Hx. eapply appends_trans; [exact Hx | apply on_ctx_b_appends].
  - apply ed_revert_appends.
  - apply delete_current_appends.
  - apply with_ctx_appends.
  - pose proof (on_ctx_b_appends s (clear_previous_segment cfg translate)) as H1.
    destruct (on_ctx_b s (clear_previous_segment cfg translate)) as [s1 ok]. cbn [fst] in H1.
    destruct ok; cbn [fst]; [exact H1|]. eapply appends_trans; [exact H1 | apply with_ctx_appends].
Qed.

Lemma editor_appends s k : appends s (fst (editor_process cfg translate s k)).
Proof.
  unfold editor_process. destruct (k_release k); [apply appends_refl|].
  assert (H1 : appends s (fst (if is_composing (st_ctx s)
                               then kbp_process (run_editor_action cfg translate) (editor_keymap cfg) true s k
                               else (s, PNoop)))).
  { destruct (is_composing (st_ctx s)); [|apply appends_refl].
    apply (kbp_process_P (appends s)); [|apply appends_refl].
    intros s1 a Hs1. eapply appends_trans; [exact Hs1 | apply run_editor_action_appends]. }
  destruct (if is_composing (st_ctx s) then _ else _) as [s1 r]. cbn [fst] in H1.
  destruct (negb (presult_is_noop r)); [exact H1|].
  match goal with |- appends s (fst (if ?b then _ else _)) => destruct b end; [|exact H1].
  destruct (editor_char_handler cfg); cbn [fst]; try exact H1.
  eapply appends_trans; [exact H1 | apply commit_appends].
Qed.

Lemma shape_appends s k : appends s (fst (shape_process s k)).
Proof.
  unfold shape_process.
  repeat match goal with |- appends s (fst (if ?b then _ else _)) => destruct b; [apply appends_refl|] end.
  apply sink_appends.
Qed.

Lemma on_ctx_appends s f : appends s (on_ctx s f).
Proof. apply with_ctx_appends. Qed.

Lemma pair_punct_appends s fs b : appends s (fst (pair_punct cfg translate s fs b)).
Proof.
  unfold pair_punct. destruct (sg_segs (cx_comp (st_ctx s))) as [|g r]; [apply appends_refl|].
  destruct (negb (status_geb SVoid (s_status g)) && has_tag TPunct (s_tags g)); [|apply appends_refl].
  destruct (s_menu g) as [m|]; [|apply appends_refl].
  destruct (menu_prepare m 2 <? 2)%N; [apply appends_refl|]. cbn [fst].
  eapply appends_trans; [|apply confirm_appends]. apply appends_eq. reflexivity.
Qed.

Lemma punctuator_appends s k : appends s (fst (punctuator_process cfg translate s k)).
Proof.
  unfold punctuator_process.
  destruct (k_release k || k_ctrl k || k_alt k || k_super k); [apply appends_refl|].
  destruct ((k_code k <? 32) || (127 <=? k_code k))%Z; [apply appends_refl|].
  cbv zeta.
  destruct (get_option (st_ctx s) opt_ascii_punct); [apply appends_refl|].
  match goal with |- appends s (fst (if ?b then _ else _)) => destruct b end;
    [cbn [fst]; eapply appends_trans; [apply on_ctx_appends | apply commit_appends]|].
  match goal with |- appends s (fst (if ?b then _ else _)) => destruct b end; [apply appends_refl|].
  match goal with |- appends s (fst (if ?b then _ else _)) => destruct b end.
  { match goal with |- appends s (fst (if ?b then _ else _)) => destruct b end; [|apply on_ctx_appends].
    destruct (cf_digit_sep_commit cfg); cbn [fst].
    - eapply appends_trans; [apply on_ctx_appends | apply commit_appends].
    - eapply appends_trans; [apply on_ctx_appends | apply on_ctx_appends]. }
  destruct (punct_lookup cfg (cx_opts (st_ctx s)) (byte_of_N (Z.to_N (k_code k)))) as [d|]; [|apply appends_refl].
  destruct (alternate_punct (st_ctx s) (byte_of_N (Z.to_N (k_code k))) d) as [c1 alt].
  destruct alt; [apply with_ctx_appends|].
  destruct (reconvert_digit_separator cfg translate c1 (byte_of_N (Z.to_N (k_code k)))) as [c2 rec].
  match goal with |- context [punct_is_translated (st_ctx ?x) TPunct] => set (s1 := x) end.
  assert (H1 : appends s s1).
  { subst s1. destruct rec; [eapply appends_trans; apply with_ctx_appends|].
    eapply appends_trans; [apply with_ctx_appends | apply on_ctx_appends]. }
  clearbody s1. cbn [fst].
  destruct (punct_is_translated (st_ctx s1) TPunct); [|exact H1].
  destruct d as [v | l | [cm|] [pr|]]; try exact H1; (eapply appends_trans; [exact H1|]).
  - apply confirm_appends.
  - apply commit_appends.
  - apply commit_appends.
  - apply pair_punct_appends.
Qed.

(** ---- ascii_composer only appends (CommitText, commit_code, commit_text styles) ---- *)
Lemma with_ac_appends s a : appends s (st_with_ac s a).
Proof. apply appends_eq. reflexivity. Qed.
Lemma commit_text_appends s t : appends s (commit_text s t).
Proof. unfold commit_text. eapply appends_trans; [apply with_ctx_appends | apply sink_appends]. Qed.
Lemma ac_switch_appends s m st : appends s (ac_switch cfg translate s m st).
Proof.
  unfold ac_switch. eapply appends_trans; [|apply on_ctx_appends].
  destruct (is_composing (st_ctx s)); [|apply appends_refl].
  destruct st.
  - destruct m; [eapply appends_trans; apply on_ctx_appends | apply on_ctx_appends].
  - eapply appends_trans; [apply on_ctx_appends | apply confirm_appends].
  - eapply appends_trans; [eapply appends_trans; apply on_ctx_appends | apply commit_appends].
  - eapply appends_trans; apply on_ctx_appends.
  - apply on_ctx_appends.
Qed.
Lemma ac_toggle_appends s code : appends s (ac_toggle_with_key cfg translate s code).
Proof.
  unfold ac_toggle_with_key. destruct (ac_find (cf_ascii_keys cfg) code); [|apply appends_refl].
  unfold ac_with_caps. eapply appends_trans; [apply ac_switch_appends | apply with_ac_appends].
Qed.
Lemma ac_caps_lock_appends s k : appends s (fst (ac_process_caps_lock cfg translate s k)).
Proof.
  unfold ac_process_caps_lock. destruct (k_code k =? XK_Caps_Lock)%Z.
  - destruct (negb (k_release k)); [|apply appends_refl].
    match goal with |- appends s (fst (if ?b then _ else _)) => destruct b end; cbn [fst]; [apply with_ac_appends|].
    eapply appends_trans; [|apply ac_switch_appends]. unfold ac_with_caps, ac_unpress.
    eapply appends_trans; apply with_ac_appends.
  - destruct (k_caps k); [|apply appends_refl].
    match goal with |- appends s (fst (if ?b then _ else _)) => destruct b end; cbn [fst]; [apply commit_text_appends | apply appends_refl].
Qed.
Lemma ascii_composer_appends s k : appends s (fst (ascii_composer_process cfg translate s k)).
Proof.
  unfold ascii_composer_process.
  destruct ((k_shift k && k_ctrl k) || k_alt k || k_super k); [apply with_ac_appends|].
  assert (H1 : appends s (fst (if ac_style_is_noop (ac_caps_style cfg) then (s, PNoop) else ac_process_caps_lock cfg translate s k))).
  { destruct (ac_style_is_noop (ac_caps_style cfg)); [apply appends_refl | apply ac_caps_lock_appends]. }
  destruct (if ac_style_is_noop (ac_caps_style cfg) then (s, PNoop) else ac_process_caps_lock cfg translate s k) as [s1 r].
  cbn [fst] in H1. destruct (negb (presult_is_noop r)); [exact H1|].
  destruct (k_code k =? XK_Eisu_toggle)%Z.
  { destruct (negb (k_release k)); [|exact H1]. cbn [fst]. eapply appends_trans; [exact H1|].
    eapply appends_trans; [|apply ac_toggle_appends]. apply with_ac_appends. }
  cbv zeta.
  match goal with |- appends s (fst (if ?b then _ else _)) => destruct b end.
  - destruct (k_release k).
    + destruct (ac_shift (st_ac s1) || ac_ctrl (st_ac s1)); [|exact H1]. cbn [fst]. eapply appends_trans; [exact H1|].
      unfold ac_unpress. eapply appends_trans; [|apply with_ac_appends].
      match goal with |- appends s1 (if ?b then _ else _) => destruct b end; [apply ac_toggle_appends | apply appends_refl].
    + destruct (negb (ac_shift (st_ac s1) || ac_ctrl (st_ac s1))); cbn [fst]; [|exact H1].
      eapply appends_trans; [exact H1 | apply with_ac_appends].
  - assert (H2 : appends s (ac_unpress s1)) by (eapply appends_trans; [exact H1 | apply with_ac_appends]).
    match goal with |- appends s (fst (if ?b then _ else _)) => destruct b end; [exact H2|].
    destruct (get_option (st_ctx (ac_unpress s1)) opt_ascii_mode); [|exact H2].
    destruct (negb (is_composing (st_ctx (ac_unpress s1)))); [exact H2|].
    match goal with |- appends s (fst (if ?b then _ else _)) => destruct b end; [|exact H2].
    cbn [fst]. eapply appends_trans; [exact H2 | apply on_ctx_appends].
Qed.

Lemma reinterpret_appends s k : appends s (fst (reinterpret_paging_key cfg translate s k)).
Proof.
  unfold reinterpret_paging_key. destruct (k_release k); [apply appends_refl|]. cbv zeta.
  repeat match goal with
         | |- appends s (fst (if ?b then _ else _)) => destruct b
         | |- appends s (fst (match ?l with [] => _ | _ :: _ => _ end)) => destruct l
         end; cbn [fst]; apply appends_eq; reflexivity.
Qed.

Lemma kb_perform_action_appends s a : appends s (kb_perform_action cfg translate s a).
Proof. destruct a; cbn [kb_perform_action]; try apply appends_refl; apply on_ctx_appends. Qed.

Lemma fold_replay_appends (f : state -> key -> state * bool) keys :
  (forall x tk, appends x (fst (f x tk))) -> forall s, appends s (fold_left (fun x tk => fst (f x tk)) keys s).
Proof.
  intros Hf. induction keys as [|tk r IH]; intros s; [apply appends_refl|]. cbn [fold_left].
  eapply appends_trans; [apply Hf | apply IH].
Qed.

Lemma key_binder_appends R red s k :
  (forall f, R = Some f -> forall x tk, appends x (fst (f x tk))) ->
  appends s (fst (key_binder_process cfg translate R red s k)).
Proof.
  intros HR. unfold key_binder_process.
  destruct (red || match cf_bindings cfg with [] => true | _ => false end); [apply appends_refl|].
  pose proof (reinterpret_appends s k) as H1.
  destruct (reinterpret_paging_key cfg translate s k) as [s1 re]. cbn [fst] in H1. destruct re; [exact H1|].
  destruct (find _ (kb_vector cfg k)) as [b|]; [|exact H1].
  destruct (kb_act b) as [keys | o | o | o | sc] eqn:Ea; cbn [fst];
    try (rewrite <- Ea; eapply appends_trans; [exact H1 | apply kb_perform_action_appends]).
  destruct keys as [|tk keys]; [exact H1|]. destruct R as [f|]; cbn [fst]; (eapply appends_trans; [exact H1|]).
  - apply fold_replay_appends, (HR f eq_refl).
  - apply on_ctx_appends.
Qed.

Lemma proc_of_appends kb i s k : (forall x, appends x (fst (kb x k))) -> appends s (fst (proc_of cfg translate kb i s k)).
Proof.
  intros Hkb. destruct i; cbn [proc_of];
    [apply speller_appends | apply punctuator_appends | apply selector_appends | apply navigator_appends | apply editor_appends
     | apply Hkb | apply ascii_composer_appends].
Qed.

Lemma run_processors_appends ps k :
  (forall p, In p ps -> forall x, appends x (fst (p x k))) -> forall s, appends s (fst (run_processors ps s k)).
Proof.
  induction ps as [|p r IH]; intros Hp s; cbn [run_processors]; [apply appends_refl|].
  pose proof (Hp p (or_introl eq_refl) s) as H1. destruct (p s k) as [s1 ret]. cbn [fst] in H1.
  destruct ret; cbn [fst]; try exact H1. eapply appends_trans; [exact H1|]. apply IH. intros q Hq. apply Hp. right; exact Hq.
Qed.

Lemma process_key_gen_appends kb s k :
  (forall x, appends x (fst (kb x k))) -> appends s (fst (process_key_gen cfg translate kb s k)).
Proof.
  intros Hkb. unfold process_key_gen.
  assert (H1 : appends s (fst (run_processors (processors cfg translate kb) s k))).
  { apply run_processors_appends. intros p Hp x. unfold processors in Hp. apply in_map_iff in Hp as (i & <- & _).
    apply proc_of_appends, Hkb. }
  destruct (run_processors (processors cfg translate kb) s k) as [s1 ret]. cbn [fst] in H1.
  assert (H2 : appends s (on_ctx s1 (fun c => ctx_with_hist c (hist_push_key (cx_hist c) k))))
    by (eapply appends_trans; [exact H1 | apply on_ctx_appends]).
  pose proof (shape_appends (on_ctx s1 (fun c => ctx_with_hist c (hist_push_key (cx_hist c) k))) k) as Hs.
  destruct ret; cbn [fst]; try exact H1; cbv zeta;
    destruct (shape_process (on_ctx s1 (fun c => ctx_with_hist c (hist_push_key (cx_hist c) k))) k) as [sx rx];
    cbn [fst] in Hs; destruct rx; cbn [fst]; eapply appends_trans; eassumption.
Qed.

Lemma process_key_n_appends fuel : forall red s k, appends s (fst (process_key_n cfg translate fuel red s k)).
Proof.
  induction fuel as [|f IH]; intros red s k; cbn [process_key_n]; apply process_key_gen_appends; intros x;
    apply key_binder_appends; intros f0 X; [discriminate X|]. injection X as <-. intros y tk. apply IH.
Qed.

Lemma process_key_appends s k : appends s (fst (process_key cfg translate s k)).
Proof. apply process_key_n_appends. Qed.

Lemma on_current_page_appends s i verb :
  (forall x n, appends x (fst (verb x n))) -> appends s (fst (on_current_page cfg s i verb)).
Proof.
  intros Hv. unfold on_current_page. destruct (negb (has_menu (st_ctx s))); [apply appends_refl|].
  destruct (size_of_int (cf_page_size cfg) <=? i)%N; [apply appends_refl|].
  destruct (sg_segs (cx_comp (st_ctx s))); [apply appends_refl | apply Hv].
Qed.

Lemma do_highlight_appends s i : appends s (fst (do_highlight cfg translate s i)).
Proof. unfold do_highlight. destruct (highlight cfg translate (st_ctx s) i). apply with_ctx_appends. Qed.

Lemma change_page_appends s b : appends s (fst (change_page cfg translate s b)).
Proof.
  unfold change_page. destruct (negb (has_menu (st_ctx s))); [apply appends_refl|].
  destruct (sg_segs (cx_comp (st_ctx s))); [apply appends_refl|].
  eapply appends_trans; [|apply do_highlight_appends]. apply with_ctx_appends.
Qed.

(** every operation except get_commit only appends to the commit buffer *)
Lemma exec_appends s o : o <> OpGetCommit -> appends s (fst (exec cfg translate s o)).
Proof.
  intros Hne. destruct o; cbn [exec]; try congruence; try apply appends_refl; try apply with_ctx_appends.
  - pose proof (process_key_appends s (mkKey code mask)) as H. destruct (process_key cfg translate s _). exact H.
  - pose proof (select_appends s i) as H. destruct (select cfg translate s i). exact H.
  - pose proof (on_current_page_appends s i (select cfg translate) (fun x n => select_appends x n)) as H.
    destruct (on_current_page cfg s i _). exact H.
  - pose proof (do_highlight_appends s i) as H. destruct (do_highlight cfg translate s i). exact H.
  - pose proof (on_current_page_appends s i (do_highlight cfg translate) (fun x n => do_highlight_appends x n)) as H.
    destruct (on_current_page cfg s i _). exact H.
  - pose proof (delete_candidate_appends s i) as H. destruct (delete_candidate cfg s i). exact H.
  - pose proof (on_current_page_appends s i (delete_candidate cfg) (fun x n => delete_candidate_appends x n)) as H.
    destruct (on_current_page cfg s i _). exact H.
  - pose proof (change_page_appends s backward) as H. destruct (change_page cfg translate s backward). exact H.
  - apply commit_appends.
  - apply appends_eq. reflexivity.
Qed.

Lemma step_commit_eq s o : st_commit (fst (step cfg translate s o)) =
  match cx_err (st_ctx s) with Some _ => st_commit s | None => st_commit (fst (exec cfg translate s o)) end.
Proof.
  unfold step. destruct (cx_err (st_ctx s)); [reflexivity|].
  destruct (exec cfg translate s o) as [s1 r]. destruct (view_of cfg s1) as [v ve]. cbn [fst].
  destruct ve; cbn; match goal with |- context [match ?x with Some _ => _ | None => _ end] => destruct x end; reflexivity.
Qed.

Lemma step_appends s o : o <> OpGetCommit -> appends s (fst (step cfg translate s o)).
Proof.
  intros Hne. destruct (exec_appends s o Hne) as (d & Hd). unfold appends. rewrite step_commit_eq.
  destruct (cx_err (st_ctx s)); [exists []; now rewrite app_nil_r | exists d; exact Hd].
Qed.

(** what one step delivers to the client-visible commit buffer *)
Definition delivered (s : state) (o : op) : bytes :=
  match o with
  | OpGetCommit => []
  | _ => skipn (length (st_commit s)) (st_commit (fst (step cfg translate s o)))
  end.

Lemma delivered_spec s o : o <> OpGetCommit -> st_commit (fst (step cfg translate s o)) = st_commit s ++ delivered s o.
Proof.
  intros Hne. destruct (step_appends s o Hne) as (d & Hd). unfold delivered.
  destruct o; try congruence; rewrite Hd, skipn_app, skipn_all, Nat.sub_diag; reflexivity.
Qed.

Fixpoint deliveries (s : state) (ops : list op) : list bytes :=
  match ops with
  | [] => []
  | o :: r => delivered s o :: deliveries (fst (step cfg translate s o)) r
  end.

(** the text a get_commit observation hands to the client *)
Definition read_of (o : obs) : bytes := match o with Obs (RCommit (Some t)) _ => t | _ => [] end.
Definition not_crash (o : obs) : bool := match o with ObsCrash _ => false | Obs _ _ => true end.

(** get_commit hands out the whole buffer and empties it (or reports nothing) *)
Lemma get_commit_step s :
  not_crash (snd (step cfg translate s OpGetCommit)) = true ->
  read_of (snd (step cfg translate s OpGetCommit)) = st_commit s /\
  st_commit (fst (step cfg translate s OpGetCommit)) = [] /\
  (exists v, snd (step cfg translate s OpGetCommit)
             = Obs (RCommit (match st_commit s with [] => None | t => Some t end)) v).
Proof.
  unfold step. destruct (cx_err (st_ctx s)); [discriminate|]. cbn [exec].
  destruct (st_commit s) as [|b t] eqn:Ec.
  - destruct (view_of cfg s) as [v ve].
    destruct (cx_err (st_ctx (match ve with Some e => st_with_ctx s (ctx_fail (st_ctx s) e) | None => s end))) eqn:Ee;
      [discriminate|]. intros _. cbn [fst snd read_of].
    split; [reflexivity|]. split; [destruct ve; cbn; exact Ec | eexists; reflexivity].
  - set (s1 := mkSt (st_ctx s) (st_nav_input s) (st_spans s) [] (st_odd s) (st_kb_last s) (st_ac s) (st_clock s)).
    destruct (view_of cfg s1) as [v ve].
    destruct (cx_err (st_ctx (match ve with Some e => st_with_ctx s1 (ctx_fail (st_ctx s1) e) | None => s1 end))) eqn:Ee;
      [discriminate|]. intros _. cbn [fst snd read_of].
    split; [reflexivity|]. split; [destruct ve; reflexivity | eexists; reflexivity].
Qed.

Lemma run_from_exactly_once ops : forall s,
  forallb not_crash (snd (run_from cfg translate s ops)) = true ->
  concat (map read_of (snd (run_from cfg translate s ops))) ++ st_commit (fst (run_from cfg translate s ops))
  = st_commit s ++ concat (deliveries s ops).
Proof.
  induction ops as [|o r IH]; intros s Hnc; [cbn; now rewrite app_nil_r|].
  cbn [run_from deliveries] in *.
  destruct (step cfg translate s o) as [s1 ob] eqn:Es.
  specialize (IH s1). destruct (run_from cfg translate s1 r) as [s2 obs]. cbn [fst snd map concat forallb] in *.
  apply andb_prop in Hnc as (Hnc1 & Hnc2). specialize (IH Hnc2).
  assert (Hs1 : s1 = fst (step cfg translate s o)) by now rewrite Es.
  assert (Hob : ob = snd (step cfg translate s o)) by now rewrite Es.
  destruct (op_eq_getcommit o) as [-> | Hne].
  - rewrite Hob in Hnc1. destruct (get_commit_step s Hnc1) as (Hr & Hc & _).
    rewrite <- Hob in Hr. rewrite <- Hs1 in Hc. rewrite Hc in IH. cbn [app] in IH.
    rewrite <- app_assoc, IH, Hr. cbn [delivered app]. reflexivity.
  - assert (Hrd : read_of ob = []).
    { rewrite Hob. unfold step. destruct (cx_err (st_ctx s)); [reflexivity|].
      destruct (exec cfg translate s o) as [sx rx] eqn:Ex. destruct (view_of cfg sx) as [v ve].
      match goal with |- context [match ?x with Some _ => _ | None => _ end] => destruct x end; [reflexivity|].
      cbn [snd read_of]. destruct o; cbn [exec] in Ex; try congruence;
        repeat match type of Ex with (let (_, _) := ?t in _) = _ => destruct t end; injection Ex as <- <-; reflexivity. }
    rewrite Hrd. cbn [app]. rewrite IH, Hs1, (delivered_spec s o Hne), <- app_assoc. reflexivity.
Qed.

Theorem exactly_once ops :
  forallb not_crash (snd (run cfg translate ops)) = true ->
  concat (map read_of (snd (run cfg translate ops))) ++ st_commit (fst (run cfg translate ops))
  = concat (deliveries (init_state cfg) ops).
Proof. intros H. unfold run in *. now rewrite (run_from_exactly_once ops (init_state cfg) H). Qed.

Theorem second_read_empty s :
  let r1 := step cfg translate s OpGetCommit in
  let r2 := step cfg translate (fst r1) OpGetCommit in
  not_crash (snd r1) = true -> not_crash (snd r2) = true ->
  read_of (snd r2) = [] /\ exists v, snd r2 = Obs (RCommit None) v.
Proof.
  cbv zeta. intros H1 H2. destruct (get_commit_step s H1) as (_ & Hc & _).
  destruct (get_commit_step _ H2) as (Hr & _ & (v & Hv)). rewrite Hc in Hr, Hv. split; [exact Hr | exists v; exact Hv].
Qed.

End Commit.
