(** Eng/WfProofs.v – C02, part 1: the invariant every API operation maintains.

    [cinv c]: the caret lies inside the input, and every segment whose menu
    has candidates has its selected_index inside that menu (menus are the
    translator's lists, shorter than 2^31 - page_size).  This is the invariant
    the code really maintains once Context::DeleteCandidate looks the
    candidate up first ([cf_del_checked cfg = true]); every function of
    Engine.v / Procs.v / Api.v preserves it, whatever the arguments. *)
From Coq Require Import List Arith NArith ZArith Bool Lia ZifyBool ZifyNat ZifyN.
From Coq.Strings Require Import Byte.
From RimeV Require Import Base.Bytes Base.ListX Eng.Keys Eng.Cand Eng.Menu Eng.Segm Eng.Ctx Eng.Engine Eng.Procs
     Eng.Api Eng.Spec Eng.WfView Eng.Utf8Proofs.
Import ListNotations.

Section Wf.
Variable cfg : config.
Variable translate : bytes -> seginfo -> list cand.
Hypothesis Hps : (1 <= cf_page_size cfg)%Z.
Hypothesis Hlen : forall i s, (Z.of_nat (length (translate i s)) + cf_page_size cfg < 2147483648)%Z.
Hypothesis Hdel : cf_del_checked cfg = true.
(** two abstract predicates carried along by the invariant: [MP] holds of every
    candidate list the translator yields, [IP] of every raw input string (closed
    under the string operations of Context); instantiated with [True] for the
    range clauses and with "clean candidates" / "ASCII" for the UTF-8 clause *)
Variable MP : nat -> menu -> Prop.     (* indexed by the start of the segment the list was made for *)
Variable IP : bytes -> Prop.
Hypothesis HMP : forall i s, IP i -> MP (si_start s) (translate i s).
(** [GE] switches the geometric part of the invariant on (used for C01's
    totality; [False] for C02/C03): it needs candidates that end at or after
    the start of their segment *)
Variable GE : Prop.
Hypothesis HGE : GE -> forall st m, MP st m -> forall c, In c m -> st <= c_end c.
Hypothesis IP_nil : IP [].
Hypothesis IP_firstn : forall n l, IP l -> IP (firstn n l).
Hypothesis IP_skipn : forall n l, IP l -> IP (skipn n l).
Hypothesis IP_app : forall a b, IP a -> IP b -> IP (a ++ b).
Hypothesis IP_key : forall z, (32 <= z < 128)%Z -> IP [byte_of_N (Z.to_N z)].   (* 0x7f: ascii_composer pushes it *)

Definition op_ok (o : op) : Prop := match o with OpSetInput v => IP v | _ => True end.

Definition menu_bounded (m : menu) : Prop := (Z.of_nat (length m) + cf_page_size cfg < 2147483648)%Z.

Definition seg_inv (g : segment) : Prop :=
  s_prompt g = [] /\
  forall m, s_menu g = Some m -> menu_bounded m /\ (m <> [] -> (s_sel g < menu_count m)%N) /\ MP (s_start g) m.
Definition segs_inv (l : list segment) : Prop := Forall seg_inv l.
(** [cpre]: what Compose needs; [cinv]: what holds after every operation
    (the composition's own input is then no longer than the raw input) *)
(** the sticky error flag is never a null dereference or an invalid page range
    (the two kinds the invariant excludes; substr/fuel bounds are not tracked here) *)
Definition err_ok (e : option err) : Prop :=
  match e with
  | Some ErrNullDeref | Some ErrBadRange => False
  | Some ErrDangling => cf_hist_guard cfg = false   (* only the source shape without the reset can reach it *)
  | Some ErrRecursion => cf_kb_guard cfg = false    (* only a key binder that replays without redirecting_ *)
  | _ => True
  end.

(** geometry of a segmentation (segments stored reversed): the first segment
    starts at 0, each next one where the previous ends; every segment has
    start <= end <= |the segmentation's input| *)
Fixpoint chain_rev (l : list segment) : Prop :=
  match l with
  | [] => True
  | g :: r => match r with [] => s_start g = 0 | g' :: _ => s_start g = s_end g' end /\ chain_rev r
  end.
Definition seg_geo (n : nat) (g : segment) : Prop := s_start g <= s_end g /\ s_end g <= n.
Definition sgeo (sg : segmentation) : Prop :=
  chain_rev (sg_segs sg) /\ Forall (seg_geo (length (sg_input sg))) (sg_segs sg).

Definition cpre (c : context) : Prop :=
  cx_caret c <= length (cx_input c) /\ segs_inv (sg_segs (cx_comp c)) /\
  IP (cx_input c) /\ IP (sg_input (cx_comp c)) /\ err_ok (cx_err c) /\
  (GE -> sgeo (cx_comp c) /\ cx_err c <> Some ErrFuel).
Definition cinv (c : context) : Prop :=
  cpre c /\ length (sg_input (cx_comp c)) <= length (cx_input c) /\
  (GE -> cx_caret c <= length (sg_input (cx_comp c))).
Definition sinv (s : state) : Prop := cinv (st_ctx s).

(** ---- segments ---- *)
Lemma seg_inv_same g g' :
  s_menu g' = s_menu g -> s_sel g' = s_sel g -> s_prompt g' = s_prompt g -> s_start g' = s_start g ->
  seg_inv g -> seg_inv g'.
Proof. intros Hm Hs Hp Hst (H0 & H). split; [rewrite Hp; exact H0|]. intros m. rewrite Hm, Hs, Hst. apply H. Qed.

Lemma seg_inv_nomenu g : s_menu g = None -> s_prompt g = [] -> seg_inv g.
Proof. intros H Hp. split; [exact Hp|]. intros m. rewrite H. discriminate. Qed.

Lemma seg_inv_status g x : seg_inv g -> seg_inv (seg_with_status g x).
Proof. apply seg_inv_same; reflexivity. Qed.
Lemma seg_inv_end g e : seg_inv g -> seg_inv (seg_with_end g e).
Proof. apply seg_inv_same; reflexivity. Qed.
Lemma seg_inv_tags g t : seg_inv g -> seg_inv (seg_with_tags g t).
Proof. apply seg_inv_same; reflexivity. Qed.
Lemma seg_inv_new a b : seg_inv (new_segment a b).
Proof. apply seg_inv_nomenu; reflexivity. Qed.
Lemma seg_inv_clear g : seg_inv (seg_clear g).
Proof. apply seg_inv_nomenu; reflexivity. Qed.
Lemma seg_inv_close g : seg_inv g -> seg_inv (seg_close g).
Proof.
  intros H. unfold seg_close. destruct (selected_cand g); [|exact H].
  destruct (c_end c <? s_end g); [|exact H]. apply seg_inv_tags, seg_inv_end, H.
Qed.
Lemma seg_inv_reopen g k : seg_inv g -> seg_inv (fst (seg_reopen g k)).
Proof.
  intros H. unfold seg_reopen. destruct (negb (status_geb (s_status g) SSelected)); [exact H|].
  destruct (s_start g + s_length g =? k); cbn [fst]; [|apply seg_inv_status, H].
  destruct (s_end g <? s_start g + s_length g); apply seg_inv_status; [apply seg_inv_tags, seg_inv_end|]; exact H.
Qed.

(** writing an index at which the menu has a candidate *)
Lemma seg_inv_sel_at g i : seg_inv g -> (forall m, s_menu g = Some m -> m <> [] -> (i < menu_count m)%N) ->
  seg_inv (seg_with_sel g i).
Proof.
  intros (H0 & H) Hi. split; [exact H0|]. intros m Hm. cbn in Hm. destruct (H m Hm) as (Hb & _ & Hmp).
  split; [exact Hb|]. split; [cbn; apply Hi; assumption | exact Hmp].
Qed.

Lemma cand_at_some g i c : cand_at g i = Some c -> forall m, s_menu g = Some m -> (i < menu_count m)%N.
Proof.
  unfold cand_at. intros H m Hm. rewrite Hm in H. unfold menu_at in H.
  destruct (menu_count m <=? i)%N eqn:E; [discriminate|]. apply N.leb_gt in E. exact E.
Qed.

(** ---- segmentations ---- *)
Lemma segs_inv_tl l : segs_inv l -> segs_inv (tl l).
Proof. destruct l; [auto|]. intros H; inversion H; assumption. Qed.

Lemma forward_inv sg : segs_inv (sg_segs sg) -> segs_inv (sg_segs (fst (forward sg))).
Proof.
  intros H. unfold forward. destruct (sg_segs sg) as [|g r] eqn:E; cbn [fst]; [rewrite E; exact H|].
  destruct (s_start g =? s_end g); cbn [fst]; [rewrite E; exact H|].
  cbn. rewrite E. constructor; [apply seg_inv_new | exact H].
Qed.

Lemma trim_inv sg : segs_inv (sg_segs sg) -> segs_inv (sg_segs (fst (trim sg))).
Proof.
  intros H. unfold trim. destruct (sg_segs sg) as [|g r] eqn:E; cbn [fst]; [rewrite E; exact H|].
  destruct (s_start g =? s_end g); cbn [fst]; [|rewrite E; exact H].
  cbn. rewrite E. inversion H; assumption.
Qed.

Lemma set_back_inv sg g : segs_inv (sg_segs sg) -> seg_inv g -> segs_inv (sg_segs (sg_set_back sg g)).
Proof.
  intros H Hg. unfold sg_set_back. destruct (sg_segs sg) as [|g0 r] eqn:E; [rewrite E; exact H|].
  cbn. inversion H; constructor; assumption.
Qed.

Lemma dispose_inv l d : segs_inv l -> segs_inv (fst (dispose l d)).
Proof.
  induction l as [|g r IH]; intros H; [exact H|]. cbn [dispose].
  destruct (d <? s_end g); [|exact H]. inversion H; subst.
  destruct (dispose r d) eqn:E. cbn [fst] in *. apply IH. assumption.
Qed.

Lemma reset_input_inv sg ni : segs_inv (sg_segs sg) -> segs_inv (sg_segs (reset_input sg ni)).
Proof.
  intros H. unfold reset_input.
  pose proof (dispose_inv (sg_segs sg) (common_prefix (sg_input sg) ni) H) as Hd.
  destruct (dispose (sg_segs sg) (common_prefix (sg_input sg) ni)) as [l n]. cbn [fst] in Hd.
  cbn [sg_segs]. destruct (0 <? n); [|exact Hd]. apply (forward_inv (sg_with_segs sg l)). exact Hd.
Qed.

Lemma add_segment_inv sg g : segs_inv (sg_segs sg) -> seg_inv g -> segs_inv (sg_segs (fst (add_segment sg g))).
Proof.
  intros H Hg. unfold add_segment. destruct (negb (s_start g =? cur_start sg)); [exact H|].
  destruct (sg_segs sg) as [|last r] eqn:E.
  - cbn. rewrite E. constructor; assumption.
  - inversion H; subst. destruct (s_end g <? s_end last); cbn [fst]; [rewrite E; exact H|].
    destruct (s_end last <? s_end g); cbn; constructor; auto using seg_inv_tags.
Qed.

Lemma abc_proceed_inv sg : segs_inv (sg_segs sg) -> segs_inv (sg_segs (abc_proceed cfg sg)).
Proof.
  intros H. unfold abc_proceed. destruct (cur_start sg <? _); [|exact H].
  apply add_segment_inv; [exact H | apply seg_inv_tags, seg_inv_new].
Qed.

Lemma fallback_proceed_inv sg : segs_inv (sg_segs sg) -> segs_inv (sg_segs (fallback_proceed sg)).
Proof.
  intros H. unfold fallback_proceed. destruct (0 <? cur_len sg); [exact H|].
  destruct (cur_start sg =? length (sg_input sg)); [exact H|].
  set (sg1 := match sg_segs sg with
              | g :: _ => if s_start g =? s_end g then sg_pop_back sg else sg
              | [] => sg
              end).
  assert (H1 : segs_inv (sg_segs sg1)).
  { subst sg1. destruct (sg_segs sg) as [|g r] eqn:E; [rewrite E; exact H|].
    destruct (s_start g =? s_end g); [|rewrite E; exact H]. cbn. rewrite E. inversion H; assumption. }
  assert (Hadd : segs_inv (sg_segs (fst (add_segment (fst (forward sg1))
                                              (seg_with_tags (new_segment (cur_start sg) (S (cur_start sg))) [TRaw]))))).
  { apply add_segment_inv; [apply forward_inv; exact H1 | apply seg_inv_tags, seg_inv_new]. }
  destruct (sg_segs sg1) as [|last r] eqn:E1; [exact Hadd|].
  destruct (has_tag TRaw (s_tags last)); [|exact Hadd].
  cbn. inversion H1; subst. constructor; [|assumption]. apply seg_inv_tags, seg_inv_clear.
Qed.

Lemma punct_proceed_inv o h sg : segs_inv (sg_segs sg) -> segs_inv (sg_segs (fst (punct_proceed cfg o h sg))).
Proof.
  intros H. unfold punct_proceed. destruct (nth_error (sg_input sg) (cur_start sg)) as [ch|]; [|exact H].
  destruct (negb (printable ch)); [exact H|]. destruct (punct_lookup cfg o ch); [|exact H].
  cbn [fst]. apply add_segment_inv; [exact H | apply seg_inv_tags, seg_inv_new].
Qed.

Lemma ascii_proceed_inv o sg : segs_inv (sg_segs sg) -> segs_inv (sg_segs (fst (ascii_proceed o sg))).
Proof.
  intros H. unfold ascii_proceed. destruct (negb (opts_get o opt_ascii_mode)); [exact H|].
  destruct (cur_start sg <? length (sg_input sg)); [|exact H].
  cbn [fst]. apply add_segment_inv; [exact H | apply seg_inv_tags, seg_inv_new].
Qed.

(** a property every segmentor preserves holds after the round *)
Lemma run_segmentors_ind (P : segmentation -> Prop) o h l :
  (forall i sg, P sg -> P (fst (segmentor_proceed cfg o h i sg))) ->
  forall sg, P sg -> P (run_segmentors cfg o h l sg).
Proof.
  intros Hstep. induction l as [|i r IH]; intros sg H; cbn [run_segmentors]; [exact H|].
  pose proof (Hstep i sg H) as H1. destruct (segmentor_proceed cfg o h i sg) as [sg1 cont]. cbn [fst] in H1.
  destruct cont; [apply IH|]; exact H1.
Qed.

Lemma segmentor_proceed_inv o h i sg :
  segs_inv (sg_segs sg) -> segs_inv (sg_segs (fst (segmentor_proceed cfg o h i sg))).
Proof.
  intros H. destruct i; cbn [segmentor_proceed fst];
    [apply abc_proceed_inv | apply punct_proceed_inv | apply fallback_proceed_inv | apply ascii_proceed_inv]; exact H.
Qed.

Lemma seg_round_inv o h sg : segs_inv (sg_segs sg) -> segs_inv (sg_segs (seg_round cfg o h sg)).
Proof.
  unfold seg_round. apply (run_segmentors_ind (fun x => segs_inv (sg_segs x))). intros i x. apply segmentor_proceed_inv.
Qed.

Lemma calc_loop_inv o h fuel caret sg :
  segs_inv (sg_segs sg) -> segs_inv (sg_segs (fst (calc_loop cfg o h fuel caret sg))).
Proof.
  revert sg. induction fuel as [|f IH]; intros sg H; cbn [calc_loop].
  - destruct (has_finished sg); exact H.
  - destruct (has_finished sg); [exact H|].
    pose proof (seg_round_inv o h _ H) as H2.
    destruct (cur_start sg =? cur_end (seg_round cfg o h sg)); [exact H2|].
    destruct (caret <=? cur_start sg); [exact H2|].
    apply IH. destruct (has_finished (seg_round cfg o h sg)); [exact H2 | apply forward_inv; exact H2].
Qed.

Lemma calc_segmentation_inv o h caret sg :
  segs_inv (sg_segs sg) -> segs_inv (sg_segs (fst (calc_segmentation cfg o h caret sg))).
Proof.
  intros H. unfold calc_segmentation.
  pose proof (calc_loop_inv o h (S (length (sg_input sg))) caret sg H) as H1.
  destruct (calc_loop cfg o h (S (length (sg_input sg))) caret sg) as [sg1 ok]. cbn [fst] in *.
  set (sg2 := match sg_segs sg1 with
              | g :: _ => if has_tag TPlaceholder (s_tags g) then sg1 else fst (trim sg1)
              | [] => sg1
              end).
  assert (H2 : segs_inv (sg_segs sg2)).
  { subst sg2. destruct (sg_segs sg1) as [|g r] eqn:E; [rewrite E; exact H1|].
    destruct (has_tag TPlaceholder (s_tags g)); [rewrite E; exact H1|]. apply trim_inv. rewrite E; exact H1. }
  destruct (sg_segs sg2) as [|g r] eqn:E2; cbn [fst]; [rewrite E2; exact H2|].
  destruct (status_geb (s_status g) SSelected); cbn [fst]; [apply forward_inv|]; rewrite E2; exact H2.
Qed.

Lemma substr_se_ip s pos en : IP s -> IP (fst (substr_se s pos en)).
Proof.
  intros H. unfold substr_se. destruct (length s <? pos); [exact IP_nil|].
  destruct (pos <=? en); cbn [fst]; [apply IP_firstn|]; apply IP_skipn, H.
Qed.

Lemma translate_one_inv o inp g : IP inp -> seg_inv g -> seg_inv (fst (translate_one translate o inp g)).
Proof.
  intros Hinp H. unfold translate_one. destruct (status_geb (s_status g) SGuess); [exact H|].
  pose proof (substr_se_ip inp (s_start g) (s_end g) Hinp) as Hsub.
  destruct (substr_se inp (s_start g) (s_end g)) as [s ok]. cbn [fst] in *.
  split; [exact (proj1 H)|].
  intros m Hm. cbn in Hm. injection Hm as <-. split; [apply Hlen|]. split; [|apply (HMP s (seg_info o g)); exact Hsub].
  intros Hne. cbn [s_sel]. unfold menu_count. destruct (translate s (seg_info o g)); [congruence|]. cbn [length]. lia.
Qed.

Lemma translate_list_inv o inp l : IP inp -> segs_inv l -> segs_inv (fst (translate_list translate o inp l)).
Proof.
  intros Hinp. induction l as [|g r IH]; intros H; [constructor|]. inversion H; subst. cbn [translate_list].
  pose proof (translate_one_inv o inp g Hinp H2) as H1. destruct (translate_one translate o inp g) as [g' ok1].
  specialize (IH H3). destruct (translate_list translate o inp r) as [r' ok2]. cbn [fst] in *. constructor; assumption.
Qed.

Lemma translate_segs_inv o sg :
  IP (sg_input sg) -> segs_inv (sg_segs sg) -> segs_inv (sg_segs (fst (translate_segs translate o sg))).
Proof.
  intros Hinp H. unfold translate_segs. pose proof (translate_list_inv o (sg_input sg) _ Hinp H) as H1.
  destruct (translate_list translate o (sg_input sg) (sg_segs sg)) as [l ok]. exact H1.
Qed.

(** ---- the segmentation's own input is only written by Reset ---- *)
Lemma forward_input sg : sg_input (fst (forward sg)) = sg_input sg.
Proof. unfold forward. destruct (sg_segs sg) as [|g r]; [reflexivity|]. destruct (s_start g =? s_end g); reflexivity. Qed.
Lemma trim_input sg : sg_input (fst (trim sg)) = sg_input sg.
Proof. unfold trim. destruct (sg_segs sg) as [|g r]; [reflexivity|]. destruct (s_start g =? s_end g); reflexivity. Qed.
Lemma set_back_input sg g : sg_input (sg_set_back sg g) = sg_input sg.
Proof. unfold sg_set_back. destruct (sg_segs sg); reflexivity. Qed.
Lemma reset_input_input sg ni : sg_input (reset_input sg ni) = ni.
Proof. unfold reset_input. destruct (dispose _ _). reflexivity. Qed.
Lemma add_segment_input sg g : sg_input (fst (add_segment sg g)) = sg_input sg.
Proof.
  unfold add_segment. destruct (negb _); [reflexivity|]. destruct (sg_segs sg) as [|l r]; [reflexivity|].
  destruct (s_end g <? s_end l); [reflexivity|]. destruct (s_end l <? s_end g); reflexivity.
Qed.
Lemma abc_proceed_input sg : sg_input (abc_proceed cfg sg) = sg_input sg.
Proof. unfold abc_proceed. destruct (cur_start sg <? _); [apply add_segment_input | reflexivity]. Qed.
Lemma fallback_proceed_input sg : sg_input (fallback_proceed sg) = sg_input sg.
Proof.
  unfold fallback_proceed. destruct (0 <? cur_len sg); [reflexivity|].
  destruct (cur_start sg =? length (sg_input sg)); [reflexivity|].
  set (sg1 := match sg_segs sg with
              | g :: _ => if s_start g =? s_end g then sg_pop_back sg else sg
              | [] => sg
              end).
  assert (E1 : sg_input sg1 = sg_input sg).
  { subst sg1. destruct (sg_segs sg) as [|g r]; [reflexivity|]. destruct (s_start g =? s_end g); reflexivity. }
  assert (Ea : sg_input (fst (add_segment (fst (forward sg1))
                   (seg_with_tags (new_segment (cur_start sg) (S (cur_start sg))) [TRaw]))) = sg_input sg)
    by (rewrite add_segment_input, forward_input; exact E1).
  destruct (sg_segs sg1) as [|last r]; [exact Ea|]. destruct (has_tag TRaw (s_tags last)); [exact E1 | exact Ea].
Qed.
Lemma punct_proceed_input o h sg : sg_input (fst (punct_proceed cfg o h sg)) = sg_input sg.
Proof.
  unfold punct_proceed. destruct (nth_error (sg_input sg) (cur_start sg)) as [ch|]; [|reflexivity].
  destruct (negb (printable ch)); [reflexivity|]. destruct (punct_lookup cfg o ch); [|reflexivity].
  cbn [fst]. apply add_segment_input.
Qed.
Lemma ascii_proceed_input o sg : sg_input (fst (ascii_proceed o sg)) = sg_input sg.
Proof.
  unfold ascii_proceed. destruct (negb (opts_get o opt_ascii_mode)); [reflexivity|].
  destruct (cur_start sg <? length (sg_input sg)); [|reflexivity]. cbn [fst]. apply add_segment_input.
Qed.
Lemma segmentor_proceed_input o h i sg : sg_input (fst (segmentor_proceed cfg o h i sg)) = sg_input sg.
Proof.
  destruct i; cbn [segmentor_proceed fst];
    [apply abc_proceed_input | apply punct_proceed_input | apply fallback_proceed_input | apply ascii_proceed_input].
Qed.
Lemma seg_round_input o h sg : sg_input (seg_round cfg o h sg) = sg_input sg.
Proof.
  unfold seg_round. apply (run_segmentors_ind (fun x => sg_input x = sg_input sg)); [|reflexivity].
  intros i x E. rewrite segmentor_proceed_input. exact E.
Qed.
Lemma calc_loop_input o h fuel caret sg : sg_input (fst (calc_loop cfg o h fuel caret sg)) = sg_input sg.
Proof.
  revert sg. induction fuel as [|f IH]; intros sg; cbn [calc_loop].
  - destruct (has_finished sg); reflexivity.
  - destruct (has_finished sg); [reflexivity|].
    assert (E2 : sg_input (seg_round cfg o h sg) = sg_input sg) by apply seg_round_input.
    destruct (cur_start sg =? cur_end (seg_round cfg o h sg)); [exact E2|].
    destruct (caret <=? cur_start sg); [exact E2|]. rewrite IH.
    destruct (has_finished (seg_round cfg o h sg)); [exact E2 | rewrite forward_input; exact E2].
Qed.
Lemma calc_segmentation_input o h caret sg : sg_input (fst (calc_segmentation cfg o h caret sg)) = sg_input sg.
Proof.
  unfold calc_segmentation. pose proof (calc_loop_input o h (S (length (sg_input sg))) caret sg) as E1.
  destruct (calc_loop cfg o h (S (length (sg_input sg))) caret sg) as [sg1 ok]. cbn [fst] in *.
  set (sg2 := match sg_segs sg1 with
              | g :: _ => if has_tag TPlaceholder (s_tags g) then sg1 else fst (trim sg1)
              | [] => sg1
              end).
  assert (E2 : sg_input sg2 = sg_input sg).
  { subst sg2. destruct (sg_segs sg1) as [|g r]; [exact E1|].
    destruct (has_tag TPlaceholder (s_tags g)); [exact E1 | rewrite trim_input; exact E1]. }
  destruct (sg_segs sg2) as [|g r]; [exact E2|].
  destruct (status_geb (s_status g) SSelected); [rewrite forward_input|]; exact E2.
Qed.
Lemma translate_segs_input o sg : sg_input (fst (translate_segs translate o sg)) = sg_input sg.
Proof. unfold translate_segs. destruct (translate_list translate o (sg_input sg) (sg_segs sg)). reflexivity. Qed.

(** ---- geometry of segmentations ---- *)
Lemma seg_geo_le n m g : n <= m -> seg_geo n g -> seg_geo m g.
Proof. intros H (A & B). split; lia. Qed.

Lemma sgeo_nil i : sgeo (mkSegm i []).
Proof. split; constructor. Qed.

Lemma chain_tl l : chain_rev l -> chain_rev (tl l).
Proof. destruct l; [auto|]. intros (_ & H); exact H. Qed.

Lemma pop_back_geo sg : sgeo sg -> sgeo (sg_pop_back sg).
Proof.
  intros (Hc & Hf). split; cbn; [apply chain_tl, Hc|]. destruct (sg_segs sg); [constructor | inversion Hf; assumption].
Qed.

Lemma with_segs_tl_geo sg : sgeo sg -> sgeo (sg_with_segs sg (tl (sg_segs sg))).
Proof. apply pop_back_geo. Qed.

Lemma forward_geo sg : sgeo sg -> sgeo (fst (forward sg)).
Proof.
  intros (Hc & Hf). unfold forward. destruct (sg_segs sg) as [|g r] eqn:E; cbn [fst]; [split; rewrite E; assumption|].
  destruct (s_start g =? s_end g); cbn [fst]; [split; rewrite E; assumption|].
  inversion Hf as [|? ? (A & B) Hr]; subst. split; cbn; rewrite E.
  - split; [reflexivity | exact Hc].
  - constructor; [split; cbn; [lia | exact B] | exact Hf].
Qed.

Lemma trim_geo sg : sgeo sg -> sgeo (fst (trim sg)).
Proof.
  intros H. unfold trim. destruct (sg_segs sg) as [|g r] eqn:E; cbn [fst]; [exact H|].
  destruct (s_start g =? s_end g); cbn [fst]; [|exact H]. apply pop_back_geo, H.
Qed.

(** replacing the last segment by one with the same start *)
Lemma set_back_geo sg g g0 r :
  sgeo sg -> sg_segs sg = g0 :: r -> s_start g = s_start g0 -> seg_geo (length (sg_input sg)) g ->
  sgeo (sg_with_segs sg (g :: r)).
Proof.
  intros (Hc & Hf) E Hs Hg. rewrite E in Hc, Hf. split; cbn.
  - destruct Hc as (H1 & H2). split; [rewrite Hs; exact H1 | exact H2].
  - inversion Hf; subst. constructor; assumption.
Qed.

(** ends decrease towards the front: every earlier segment ends at or before the start of a later one *)
Lemma chain_ends_le n g r : chain_rev (g :: r) -> Forall (seg_geo n) (g :: r) -> Forall (fun g' => s_end g' <= s_start g) r.
Proof.
  revert g. induction r as [|g1 r IH]; intros g Hc Hf; [constructor|].
  destruct Hc as (H1 & Hc1). inversion Hf as [|? ? Hg Hf1]; subst.
  constructor; [lia|]. specialize (IH g1 Hc1 Hf1). inversion Hf1 as [|? ? (A & B) _]; subst.
  eapply Forall_impl; [|exact IH]. intros a Ha. cbn in Ha. lia.
Qed.

Lemma dispose_geo l d n :
  chain_rev l -> Forall (seg_geo n) l ->
  chain_rev (fst (dispose l d)) /\ Forall (seg_geo (Nat.min n d)) (fst (dispose l d)) /\ (d <= n -> True).
Proof.
  induction l as [|g r IH]; intros Hc Hf; [cbn; repeat split; constructor|]. cbn [dispose].
  destruct (d <? s_end g) eqn:E.
  - destruct (dispose r d) as [l' k] eqn:Ed. cbn [fst] in *. inversion Hf; subst. apply IH; [apply (chain_tl (g :: r)), Hc | assumption].
  - apply Nat.ltb_ge in E. cbn [fst]. split; [exact Hc|]. split; [|auto].
    pose proof (chain_ends_le n g r Hc Hf) as Hle. inversion Hf as [|? ? (A & B) Hr]; subst.
    constructor; [split; lia|].
    apply Forall_forall. intros a Ha. pose proof (proj1 (Forall_forall _ _) Hle a Ha) as H1. cbn in H1.
    pose proof (proj1 (Forall_forall _ _) Hr a Ha) as (A1 & B1). split; lia.
Qed.

Lemma reset_input_geo sg ni : sgeo sg -> sgeo (reset_input sg ni).
Proof.
  intros (Hc & Hf). unfold reset_input.
  destruct (dispose_geo (sg_segs sg) (common_prefix (sg_input sg) ni) (length (sg_input sg)) Hc Hf) as (D1 & D2 & _).
  destruct (dispose (sg_segs sg) (common_prefix (sg_input sg) ni)) as [l k]. cbn [fst] in *.
  assert (Hle : Nat.min (length (sg_input sg)) (common_prefix (sg_input sg) ni) <= length ni).
  { assert (common_prefix (sg_input sg) ni <= length ni); [|lia].
    clear. revert ni. induction (sg_input sg) as [|x a IH]; intros [|y b]; cbn; try lia.
    destruct (Byte.eqb x y); [specialize (IH b)|]; lia. }
  assert (H1 : sgeo (mkSegm ni l)).
  { split; cbn; [exact D1|]. eapply Forall_impl; [|exact D2]. intros a. apply seg_geo_le. exact Hle. }
  destruct (0 <? k); cbn [sg_segs].
  - pose proof (forward_geo (sg_with_segs sg l)) as Hfw.
    assert (H2 : sgeo (sg_with_segs sg l) -> sgeo (mkSegm ni (sg_segs (fst (forward (sg_with_segs sg l)))))).
    { intros _. pose proof (forward_geo (mkSegm ni l) H1) as H3. unfold forward in *. cbn [sg_segs sg_with_segs] in *.
      destruct l as [|g r]; [exact H3|]. destruct (s_start g =? s_end g); exact H3. }
    apply H2. split; cbn; [exact D1|]. eapply Forall_impl; [|exact D2]. intros a. apply seg_geo_le. lia.
  - exact H1.
Qed.

Lemma add_segment_geo sg g :
  sgeo sg -> seg_geo (length (sg_input sg)) g -> sgeo (fst (add_segment sg g)).
Proof.
  intros H Hg. unfold add_segment. destruct (s_start g =? cur_start sg) eqn:Es; cbn [negb]; [|exact H].
  apply Nat.eqb_eq in Es. destruct (sg_segs sg) as [|last r] eqn:E.
  - cbn [fst]. split; cbn; rewrite E; [|constructor; [exact Hg | constructor]].
    unfold cur_start in Es. rewrite E in Es. split; [exact Es | exact I].
  - unfold cur_start in Es. rewrite E in Es.
    destruct (s_end g <? s_end last); cbn [fst]; [exact H|].
    destruct (s_end last <? s_end g); cbn [fst].
    + apply (set_back_geo sg g last r H E Es Hg).
    + apply (set_back_geo sg _ last r H E); [reflexivity|]. destruct H as (_ & Hf). rewrite E in Hf. inversion Hf; assumption.
Qed.

Lemma abc_scan_le l f e : abc_scan cfg l f e <= length l.
Proof.
  revert f e. induction l as [|b r IH]; intros f e; cbn [abc_scan length]; [lia|].
  destruct (negb _ && negb _); [lia|]. destruct (e && _ && _); [lia|]. specialize (IH false (mem_byte b (cf_finals cfg) || (negb f && mem_byte b (cf_delims cfg)))). lia.
Qed.

Lemma cur_geo sg : sgeo sg -> cur_start sg <= cur_end sg /\ cur_end sg <= length (sg_input sg).
Proof.
  intros (_ & Hf). unfold cur_start, cur_end. destruct (sg_segs sg); [lia|]. inversion Hf as [|? ? (A & B) _]; subst. lia.
Qed.

Lemma abc_proceed_geo sg : sgeo sg -> sgeo (abc_proceed cfg sg).
Proof.
  intros H. unfold abc_proceed. destruct (cur_geo sg H) as (A & B).
  destruct (cur_start sg <? _) eqn:E; [|exact H]. apply Nat.ltb_lt in E.
  apply add_segment_geo; [exact H|]. split; cbn; [lia|].
  pose proof (abc_scan_le (skipn (cur_start sg) (sg_input sg)) true true) as Hl. rewrite skipn_length in Hl. lia.
Qed.

Lemma fallback_proceed_geo sg : sgeo sg -> sgeo (fallback_proceed sg).
Proof.
  intros H. unfold fallback_proceed. destruct (0 <? cur_len sg) eqn:El; [exact H|].
  destruct (cur_start sg =? length (sg_input sg)) eqn:Ek; [exact H|].
  apply Nat.ltb_ge in El. apply Nat.eqb_neq in Ek. destruct (cur_geo sg H) as (A & B).
  assert (Hse : cur_end sg = cur_start sg).
  { unfold cur_len, cur_start, cur_end in *. destruct (sg_segs sg); [reflexivity | lia]. }
  set (k := cur_start sg) in *.
  set (sg1 := match sg_segs sg with
              | g :: _ => if s_start g =? s_end g then sg_pop_back sg else sg
              | [] => sg
              end).
  assert (H1 : sgeo sg1 /\ sg_input sg1 = sg_input sg /\ cur_end sg1 = k).
  { subst sg1. destruct (sg_segs sg) as [|g r] eqn:E.
    - split; [exact H|]. split; [reflexivity|]. unfold cur_end, k, cur_start. rewrite E. reflexivity.
    - unfold k, cur_start, cur_end in *. rewrite E in *. replace (s_start g =? s_end g) with true by (symmetry; apply Nat.eqb_eq; lia).
      split; [apply pop_back_geo, H|]. split; [reflexivity|]. cbn. rewrite E. cbn.
      destruct H as (Hc & _). rewrite E in Hc. destruct Hc as (Hc1 & _). destruct r; cbn; lia. }
  destruct H1 as (G1 & I1 & C1).
  assert (Hadd : sgeo (fst (add_segment (fst (forward sg1)) (seg_with_tags (new_segment k (S k)) [TRaw])))).
  { apply add_segment_geo; [apply forward_geo, G1|]. rewrite forward_input, I1. split; cbn; lia. }
  destruct (sg_segs sg1) as [|last r] eqn:E1; [exact Hadd|].
  destruct (has_tag TRaw (s_tags last)); [|exact Hadd].
  unfold cur_end in C1. rewrite E1 in C1.
  pose proof (set_back_geo sg1 (seg_with_tags (seg_clear (seg_with_end last (S k))) [TRaw]) last r G1 E1 eq_refl) as Hs.
  apply Hs. rewrite I1. destruct G1 as (_ & Hf). rewrite E1 in Hf. inversion Hf as [|? ? (X & Y) _]; subst.
  split; cbn; lia.
Qed.

Lemma add_segment_cur sg g :
  cur_start (fst (add_segment sg g)) = cur_start sg /\ cur_end sg <= cur_end (fst (add_segment sg g)).
Proof.
  unfold add_segment. destruct (s_start g =? cur_start sg) eqn:Es; cbn [negb fst]; [|split; [reflexivity | lia]].
  apply Nat.eqb_eq in Es. unfold cur_start, cur_end in *. destruct (sg_segs sg) as [|l r] eqn:E; cbn [fst sg_push_back sg_segs sg_with_segs].
  - split; [exact Es | lia].
  - destruct (s_end g <? s_end l) eqn:E1; cbn [fst]; [rewrite E; split; [reflexivity | lia]|].
    destruct (s_end l <? s_end g) eqn:E2; cbn [fst sg_segs sg_with_segs].
    + apply Nat.ltb_lt in E2. split; [exact Es | lia].
    + cbn. split; [reflexivity | lia].
Qed.

Lemma forward_cur_end sg : cur_end (fst (forward sg)) = cur_end sg.
Proof.
  unfold forward, cur_end. destruct (sg_segs sg) as [|g r] eqn:E; cbn [fst]; [rewrite E; reflexivity|].
  destruct (s_start g =? s_end g); cbn; [rewrite E; reflexivity | reflexivity].
Qed.

Lemma forward_cur_start sg : sgeo sg -> cur_start (fst (forward sg)) = cur_end sg.
Proof.
  intros H. destruct (cur_geo sg H) as (A & _). unfold forward, cur_start, cur_end in *.
  destruct (sg_segs sg) as [|g r] eqn:E; cbn [fst]; [rewrite E; reflexivity|].
  destruct (s_start g =? s_end g) eqn:Ee; cbn; [rewrite E; now apply Nat.eqb_eq in Ee | reflexivity].
Qed.

Lemma abc_proceed_cur_start sg : cur_start (abc_proceed cfg sg) = cur_start sg.
Proof. unfold abc_proceed. destruct (cur_start sg <? _); [apply add_segment_cur | reflexivity]. Qed.

(** the fallback segmentor never moves the end of the current segment before its start position *)
Lemma fallback_progress sa :
  sgeo sa -> cur_start sa <= cur_end (fallback_proceed sa).
Proof.
  intros Ha. destruct (cur_geo sa Ha) as (A & B).
  unfold fallback_proceed. destruct (0 <? cur_len sa) eqn:El; [exact A|].
  destruct (cur_start sa =? length (sg_input sa)) eqn:Ek; [exact A|].
  apply Nat.ltb_ge in El.
  assert (Hse : cur_end sa = cur_start sa).
  { unfold cur_len, cur_start, cur_end in *. destruct (sg_segs sa); [reflexivity | lia]. }
  set (k := cur_start sa) in *.
  set (sg1 := match sg_segs sa with
              | g :: _ => if s_start g =? s_end g then sg_pop_back sa else sa
              | [] => sa
              end).
  assert (C1 : cur_end sg1 = k \/ sg_segs sg1 = []).
  { subst sg1. destruct (sg_segs sa) as [|g r] eqn:E; [right; exact E|].
    unfold k, cur_start, cur_end in *. rewrite E in *. replace (s_start g =? s_end g) with true by (symmetry; apply Nat.eqb_eq; lia).
    destruct Ha as (Hc & _). rewrite E in Hc. destruct Hc as (Hc1 & _). cbn. rewrite E. cbn.
    destruct r; [right; reflexivity | left; lia]. }
  assert (Hadd : k <= cur_end (fst (add_segment (fst (forward sg1)) (seg_with_tags (new_segment k (S k)) [TRaw])))).
  { destruct (add_segment_cur (fst (forward sg1)) (seg_with_tags (new_segment k (S k)) [TRaw])) as (_ & Hge).
    rewrite forward_cur_end in Hge. destruct C1 as [C1 | C1]; [lia|].
    unfold add_segment, forward. rewrite C1. cbn [fst cur_start sg_segs s_start seg_with_tags new_segment].
    destruct (k =? 0) eqn:E0; cbn [negb fst]; [cbn; rewrite C1; cbn; lia|].
    exfalso. apply Nat.eqb_neq in E0. subst sg1. destruct (sg_segs sa) as [|g r] eqn:E; [unfold k, cur_start in E0; rewrite E in E0; lia|].
    unfold k, cur_start, cur_end in *. rewrite E in *.
    destruct (s_start g =? s_end g); [|rewrite E in C1; discriminate]. cbn in C1. rewrite E in C1. cbn in C1. subst r.
    destruct Ha as (Hc & _). rewrite E in Hc. destruct Hc as (Hc1 & _). lia. }
  destruct (sg_segs sg1) as [|last r] eqn:E1; [exact Hadd|].
  destruct (has_tag TRaw (s_tags last)); [|exact Hadd]. cbn. lia.
Qed.

Lemma punct_proceed_geo o h sg : sgeo sg -> sgeo (fst (punct_proceed cfg o h sg)).
Proof.
  intros H. unfold punct_proceed. destruct (nth_error (sg_input sg) (cur_start sg)) as [ch|] eqn:En; [|exact H].
  destruct (negb (printable ch)); [exact H|]. destruct (punct_lookup cfg o ch); [|exact H].
  cbn [fst]. apply add_segment_geo; [exact H|]. split; cbn; [lia|].
  assert (cur_start sg < length (sg_input sg)); [|lia]. apply nth_error_Some. rewrite En. discriminate.
Qed.
Lemma punct_proceed_cur_start o h sg : cur_start (fst (punct_proceed cfg o h sg)) = cur_start sg.
Proof.
  unfold punct_proceed. destruct (nth_error (sg_input sg) (cur_start sg)) as [ch|]; [|reflexivity].
  destruct (negb (printable ch)); [reflexivity|]. destruct (punct_lookup cfg o ch); [|reflexivity].
  cbn [fst]. apply add_segment_cur.
Qed.
Lemma ascii_proceed_geo o sg : sgeo sg -> sgeo (fst (ascii_proceed o sg)).
Proof.
  intros H. unfold ascii_proceed. destruct (negb (opts_get o opt_ascii_mode)); [exact H|].
  destruct (cur_start sg <? length (sg_input sg)) eqn:El; [|exact H]. apply Nat.ltb_lt in El.
  cbn [fst]. apply add_segment_geo; [exact H|]. split; cbn; lia.
Qed.
Lemma ascii_proceed_cur_start o sg : cur_start (fst (ascii_proceed o sg)) = cur_start sg.
Proof.
  unfold ascii_proceed. destruct (negb (opts_get o opt_ascii_mode)); [reflexivity|].
  destruct (cur_start sg <? length (sg_input sg)); [|reflexivity]. cbn [fst]. apply add_segment_cur.
Qed.
Lemma segmentor_proceed_geo o h i sg : sgeo sg -> sgeo (fst (segmentor_proceed cfg o h i sg)).
Proof.
  intros H. destruct i; cbn [segmentor_proceed fst];
    [apply abc_proceed_geo | apply punct_proceed_geo | apply fallback_proceed_geo | apply ascii_proceed_geo]; exact H.
Qed.
Lemma seg_round_geo o h sg : sgeo sg -> sgeo (seg_round cfg o h sg).
Proof. unfold seg_round. apply (run_segmentors_ind sgeo). intros i x. apply segmentor_proceed_geo. Qed.

(** one round of the segmentors never moves the end of the current segment before the round's start position *)
Lemma run_segmentors_progress o h l : forall sg,
  sgeo sg -> cur_start sg <= cur_end (run_segmentors cfg o h l sg).
Proof.
  induction l as [|i r IH]; intros sg H; cbn [run_segmentors]; [apply (cur_geo sg H)|].
  destruct i; cbn [segmentor_proceed].
  - rewrite <- (abc_proceed_cur_start sg). apply IH, abc_proceed_geo, H.
  - pose proof (punct_proceed_geo o h sg H) as G1. pose proof (punct_proceed_cur_start o h sg) as C1.
    destruct (punct_proceed cfg o h sg) as [sg1 cont]. cbn [fst] in *. rewrite <- C1.
    destruct cont; [apply IH, G1 | apply (cur_geo sg1 G1)].
  - apply fallback_progress, H.
  - pose proof (ascii_proceed_geo o sg H) as G1. pose proof (ascii_proceed_cur_start o sg) as C1.
    destruct (ascii_proceed o sg) as [sg1 cont]. cbn [fst] in *. rewrite <- C1.
    destruct cont; [apply IH, G1 | apply (cur_geo sg1 G1)].
Qed.
Lemma round_progress o h sg : sgeo sg -> cur_start sg <= cur_end (seg_round cfg o h sg).
Proof. apply run_segmentors_progress. Qed.

Lemma calc_loop_geo o h fuel caret sg : sgeo sg -> sgeo (fst (calc_loop cfg o h fuel caret sg)).
Proof.
  revert sg. induction fuel as [|f IH]; intros sg H; cbn [calc_loop].
  - destruct (has_finished sg); exact H.
  - destruct (has_finished sg); [exact H|].
    pose proof (seg_round_geo o h _ H) as H2.
    destruct (cur_start sg =? cur_end (seg_round cfg o h sg)); [exact H2|].
    destruct (caret <=? cur_start sg); [exact H2|].
    apply IH. destruct (has_finished (seg_round cfg o h sg)); [exact H2 | apply forward_geo; exact H2].
Qed.

Lemma calc_loop_finished o h fuel caret sg : has_finished sg = true -> calc_loop cfg o h fuel caret sg = (sg, true).
Proof. intros H. destruct fuel; cbn [calc_loop]; rewrite H; reflexivity. Qed.

(** CalculateSegmentation finishes: every round that goes on starts strictly
    further right, so |input| + 1 rounds suffice *)
Lemma calc_loop_ok o h fuel caret : forall sg,
  sgeo sg -> length (sg_input sg) - cur_start sg < fuel -> snd (calc_loop cfg o h fuel caret sg) = true.
Proof.
  induction fuel as [|f IH]; intros sg H Hm; [lia|]. cbn [calc_loop].
  destruct (has_finished sg) eqn:Efin; [reflexivity|].
  pose proof (seg_round_geo o h _ H) as H2.
  pose proof (round_progress o h sg H) as Hp.
  set (sg2 := seg_round cfg o h sg) in *.
  destruct (cur_start sg =? cur_end sg2) eqn:Ee; [reflexivity|]. apply Nat.eqb_neq in Ee.
  destruct (caret <=? cur_start sg); [reflexivity|].
  destruct (has_finished sg2) eqn:Ef2; [rewrite (calc_loop_finished o h f caret sg2 Ef2); reflexivity|].
  apply IH; [apply forward_geo, H2|]. rewrite forward_input, (forward_cur_start sg2 H2).
  assert (Hin : sg_input sg2 = sg_input sg) by (unfold sg2; apply seg_round_input).
  rewrite Hin. unfold has_finished in Efin. apply Nat.leb_gt in Efin. destruct (cur_geo sg H) as (A & _). lia.
Qed.

Lemma calc_segmentation_geo o h caret sg : sgeo sg -> sgeo (fst (calc_segmentation cfg o h caret sg)) /\ snd (calc_segmentation cfg o h caret sg) = true.
Proof.
  intros H. unfold calc_segmentation.
  pose proof (calc_loop_geo o h (S (length (sg_input sg))) caret sg H) as H1.
  pose proof (calc_loop_ok o h (S (length (sg_input sg))) caret sg H ltac:(lia)) as Hok.
  destruct (calc_loop cfg o h (S (length (sg_input sg))) caret sg) as [sg1 ok]. cbn [fst snd] in *. subst ok.
  split; [|reflexivity].
  set (sg2 := match sg_segs sg1 with
              | g :: _ => if has_tag TPlaceholder (s_tags g) then sg1 else fst (trim sg1)
              | [] => sg1
              end).
  assert (H2 : sgeo sg2).
  { subst sg2. destruct (sg_segs sg1) as [|g r]; [exact H1|].
    destruct (has_tag TPlaceholder (s_tags g)); [exact H1 | apply trim_geo, H1]. }
  destruct (sg_segs sg2) as [|g r]; cbn [fst]; [exact H2|].
  destruct (status_geb (s_status g) SSelected); cbn [fst]; [apply forward_geo|]; exact H2.
Qed.

Lemma translate_list_geo o inp n l :
  Forall (seg_geo n) l -> n <= length inp ->
  Forall (seg_geo n) (fst (translate_list translate o inp l)) /\ snd (translate_list translate o inp l) = true /\
  map s_start (fst (translate_list translate o inp l)) = map s_start l /\
  map s_end (fst (translate_list translate o inp l)) = map s_end l.
Proof.
  intros Hf Hn. induction Hf as [|g r (A & B) Hr IH]; [cbn; repeat split; constructor|].
  cbn [translate_list]. destruct IH as (I1 & I2 & I3 & I4).
  destruct (translate_list translate o inp r) as [r' ok2]. cbn [fst snd] in *. subst ok2.
  unfold translate_one. destruct (status_geb (s_status g) SGuess).
  - cbn [fst snd map]. rewrite I3, I4. repeat split; auto. constructor; [split|]; assumption.
  - unfold substr_se. replace (length inp <? s_start g) with false by (symmetry; apply Nat.ltb_ge; lia).
    replace (s_start g <=? s_end g) with true by (symmetry; apply Nat.leb_le; lia).
    cbn [fst snd map s_start s_end andb]. rewrite I3, I4. repeat split; auto. constructor; [split; cbn|]; assumption.
Qed.

Lemma chain_same l l' : map s_start l' = map s_start l -> map s_end l' = map s_end l -> chain_rev l -> chain_rev l'.
Proof.
  revert l'. induction l as [|g r IH]; intros [|g' r'] Hs He Hc; try discriminate; [exact I|].
  cbn [map] in Hs, He. injection Hs as Hs1 Hs2. injection He as He1 He2. destruct Hc as (H1 & H2).
  split; [|apply IH; assumption]. destruct r as [|g1 r1]; destruct r' as [|g1' r1']; try discriminate; [congruence|].
  cbn [map] in Hs2, He2. injection He2 as He21 _. congruence.
Qed.

Lemma translate_segs_geo o sg : sgeo sg -> sgeo (fst (translate_segs translate o sg)) /\ snd (translate_segs translate o sg) = true.
Proof.
  intros (Hc & Hf). unfold translate_segs.
  destruct (translate_list_geo o (sg_input sg) (length (sg_input sg)) (sg_segs sg) Hf (le_n _)) as (T1 & T2 & T3 & T4).
  destruct (translate_list translate o (sg_input sg) (sg_segs sg)) as [l ok]. cbn [fst snd] in *.
  split; [|exact T2]. split; cbn; [apply (chain_same (sg_segs sg) l T3 T4 Hc) | exact T1].
Qed.

(** ---- contexts ---- *)
Lemma geo_same n l l' :
  map s_start l' = map s_start l -> map s_end l' = map s_end l -> Forall (seg_geo n) l -> Forall (seg_geo n) l'.
Proof.
  revert l'. induction l as [|g r IH]; intros [|g' r'] Hs He Hf; try discriminate; [constructor|].
  cbn [map] in Hs, He. injection Hs as Hs1 Hs2. injection He as He1 He2. inversion Hf as [|? ? (A & B) Hr]; subst.
  constructor; [split; lia | apply IH; assumption].
Qed.
Lemma sgeo_same sg l' :
  map s_start l' = map s_start (sg_segs sg) -> map s_end l' = map s_end (sg_segs sg) -> sgeo sg -> sgeo (sg_with_segs sg l').
Proof. intros Hs He (Hc & Hf). split; cbn; [apply (chain_same _ _ Hs He Hc) | apply (geo_same _ _ _ Hs He Hf)]. Qed.

(** an error other than the two excluded kinds; a fuel error only when the geometric invariant is off *)
Definition err_allowed (e : err) : Prop :=
  e = ErrSubstr \/ (e = ErrDangling /\ cf_hist_guard cfg = false) \/ (e = ErrRecursion /\ cf_kb_guard cfg = false) \/
  (e = ErrFuel /\ ~ GE).
Lemma err_ok_fail c e : err_allowed e -> err_ok (cx_err c) -> err_ok (cx_err (ctx_fail c e)).
Proof. intros He H. cbn. destruct (cx_err c); [exact H|]. destruct He as [-> | [(-> & Hg) | [(-> & Hg) | (-> & _)]]]; [exact I | exact Hg | exact Hg | exact I]. Qed.

(** with the reset in the raw branch [last] never ages, so it is never read after its record was popped *)
Lemma hist_step_guarded input a g :
  (forall t age, ha_last a = Some (t, age) -> age = 0) -> ha_live a = true ->
  (forall t age, ha_last (hist_step true input a g) = Some (t, age) -> age = 0) /\ ha_live (hist_step true input a g) = true.
Proof.
  intros H0 Hl. unfold hist_step. destruct (selected_cand g) as [cd|].
  - destruct (ha_last a) as [[t0 age0]|] eqn:El.
    + pose proof (H0 t0 age0 eq_refl) as ->. rewrite Hl. cbn [andb kMaxRecords Nat.ltb Nat.leb].
      destruct (bytes_eqb t0 (c_type cd)); destruct (status_geb (s_status g) SConfirmed); cbn [ha_last ha_live hacc_push];
        split; try reflexivity; intros t age X; try discriminate X; injection X as _ <-; reflexivity.
    + rewrite Hl. destruct (status_geb (s_status g) SConfirmed); cbn [ha_last ha_live hacc_push andb];
        split; try reflexivity; intros t age X; try discriminate X; injection X as _ <-; reflexivity.
  - destruct (substr_se input (s_start g) (s_end g)) as [t ok]. cbn [ha_last ha_live hacc_push].
    split; [intros t0 age X; discriminate X | exact Hl].
Qed.
Lemma hist_fold_guarded input l : forall a,
  (forall t age, ha_last a = Some (t, age) -> age = 0) -> ha_live a = true ->
  ha_live (fold_left (hist_step true input) l a) = true.
Proof.
  induction l as [|g r IH]; intros a H0 Hl; [exact Hl|]. cbn [fold_left].
  destruct (hist_step_guarded input a g H0 Hl) as (A & B). apply IH; assumption.
Qed.
Lemma hist_push_comp_live h sg input : snd (hist_push_comp true h sg input) = true.
Proof.
  unfold hist_push_comp.
  pose proof (hist_fold_guarded input (segs_fwd sg) (mkHacc h None 0 true true)) as H.
  set (a := fold_left (hist_step true input) (segs_fwd sg) (mkHacc h None 0 true true)) in *.
  assert (Ha : ha_live a = true) by (apply H; [intros t age X; discriminate X | reflexivity]).
  destruct (ha_end a <? length input); cbn [snd hacc_push ha_live]; exact Ha.
Qed.
Lemma cinv_err c e : err_allowed e -> cinv c -> cinv (ctx_fail c e).
Proof.
  intros He ((H1 & H2 & H3 & H4 & H5 & Hg) & H6). split; [|exact H6].
  split; [exact H1|]. split; [exact H2|]. split; [exact H3|]. split; [exact H4|].
  split; [apply err_ok_fail; assumption|]. intros G. destruct (Hg G) as (Hgeo & Hne). split; [exact Hgeo|].
  cbn. destruct (cx_err c) as [x|]; [exact Hne|]. destruct He as [-> | [(-> & _) | [(-> & _) | (_ & Hn)]]]; [discriminate | discriminate | discriminate | contradiction].
Qed.
Lemma cinv_check c b e : (b = false -> err_allowed e) -> cinv c -> cinv (ctx_check c b e).
Proof. intros He H. unfold ctx_check. destruct b; [exact H | apply cinv_err; auto]. Qed.
Lemma cinv_opts c o : cinv c -> cinv (ctx_with_opts c o).
Proof. intros H; exact H. Qed.
Lemma cinv_hist c h : cinv c -> cinv (ctx_with_hist c h).
Proof. intros H; exact H. Qed.
Lemma cinv_comp c sg :
  cinv c -> segs_inv (sg_segs sg) -> sg_input sg = sg_input (cx_comp c) -> (GE -> sgeo sg) -> cinv (ctx_with_comp c sg).
Proof.
  intros ((H1 & _ & H3 & H4 & He & Hg) & H5 & H6) H2 E G.
  split; [|cbn; rewrite E; split; assumption].
  split; [exact H1|]. split; [exact H2|]. split; [exact H3|]. split; [cbn; rewrite E; exact H4|]. split; [exact He|].
  intros G0. split; [apply G, G0 | apply Hg, G0].
Qed.
Lemma cinv_geo c : cinv c -> GE -> sgeo (cx_comp c) /\ cx_caret c <= length (sg_input (cx_comp c)).
Proof. intros ((_ & _ & _ & _ & _ & Hg) & _ & H6) G. split; [apply Hg, G | apply H6, G]. Qed.
Lemma cinv_segs c : cinv c -> segs_inv (sg_segs (cx_comp c)).
Proof. intros H; apply H. Qed.
Lemma cinv_cpre c : cinv c -> cpre c.
Proof. intros H; apply H. Qed.

(** the ascii composer's slot on update_notifier_ writes an option and its own connection flag only *)
Lemma ac_on_update_inv c : cinv c -> cinv (ac_on_update c).
Proof. intros H. unfold ac_on_update. destruct (cx_conn c && negb (is_composing c)); exact H. Qed.

Lemma compose_core_inv c : cpre c -> cinv (compose_core cfg translate c).
Proof.
  intros (Hc & Hs & Hi & Hci & He & Hg). unfold compose_core.
  set (sg0 := reset_input (cx_comp c) (firstn (cx_caret c) (cx_input c))).
  assert (H0 : segs_inv (sg_segs sg0)) by (apply reset_input_inv; exact Hs).
  set (sg1 := if (cx_caret c <? length (cx_input c)) && (cx_caret c =? confirmed_pos sg0)
              then reset_input sg0 (cx_input c) else sg0).
  assert (H1 : segs_inv (sg_segs sg1)).
  { subst sg1. destruct ((cx_caret c <? length (cx_input c)) && (cx_caret c =? confirmed_pos sg0));
      [apply reset_input_inv|]; exact H0. }
  assert (G1 : GE -> sgeo sg1).
  { intros G. destruct (Hg G) as (Hgeo & _). subst sg1 sg0.
    destruct ((cx_caret c <? length (cx_input c)) && _); [apply reset_input_geo|]; apply reset_input_geo; exact Hgeo. }
  pose proof (calc_segmentation_inv (cx_opts c) (cx_hist c) (cx_caret c) sg1 H1) as H2.
  assert (Hi1 : IP (sg_input sg1)).
  { subst sg1. destruct ((cx_caret c <? length (cx_input c)) && (cx_caret c =? confirmed_pos sg0));
      [rewrite reset_input_input; exact Hi | subst sg0; rewrite reset_input_input; apply IP_firstn; exact Hi]. }
  assert (Hl1 : length (sg_input sg1) <= length (cx_input c) /\ cx_caret c <= length (sg_input sg1)).
  { subst sg1. destruct ((cx_caret c <? length (cx_input c)) && (cx_caret c =? confirmed_pos sg0));
      [rewrite reset_input_input; lia | subst sg0; rewrite reset_input_input, firstn_length; lia]. }
  pose proof (calc_segmentation_input (cx_opts c) (cx_hist c) (cx_caret c) sg1) as Ci.
  assert (G2 : GE -> sgeo (fst (calc_segmentation cfg (cx_opts c) (cx_hist c) (cx_caret c) sg1)) /\ snd (calc_segmentation cfg (cx_opts c) (cx_hist c) (cx_caret c) sg1) = true)
    by (intros G; apply calc_segmentation_geo, G1, G).
  destruct (calc_segmentation cfg (cx_opts c) (cx_hist c) (cx_caret c) sg1) as [sg2 okf] eqn:Ec. cbn [fst snd] in H2, Ci, G2.
  assert (Hi2 : IP (sg_input sg2)) by (rewrite Ci; exact Hi1).
  pose proof (translate_segs_inv (cx_opts c) sg2 Hi2 H2) as H3.
  assert (G3 : GE -> sgeo (fst (translate_segs translate (cx_opts c) sg2)) /\ snd (translate_segs translate (cx_opts c) sg2) = true)
    by (intros G; apply translate_segs_geo, G2, G).
  destruct (translate_segs translate (cx_opts c) sg2) as [sg3 oks] eqn:Et. cbn [fst snd] in H3, G3.
  assert (E3 : sg_input sg3 = sg_input sg2).
  { pose proof (translate_segs_input (cx_opts c) sg2) as T. rewrite Et in T. exact T. }
  apply cinv_check.
  { intros ->. left; reflexivity. }
  apply cinv_check.
  { intros ->. right; right; right. split; [reflexivity|]. intros G. destruct (G2 G) as (_ & X). discriminate. }
  split; [split; [exact Hc|]; split; [exact H3|]; split; [exact Hi|]; split; [|split; [exact He|]]|];
    cbn [ctx_with_comp cx_comp cx_input cx_err cx_caret]; rewrite ?E3, ?Ci.
  - rewrite <- Ci. exact Hi2.
  - intros G. split; [apply G3, G | apply Hg, G].
  - split; [lia | intros _; lia].
Qed.

Lemma compose_inv c : cpre c -> cinv (compose cfg translate c).
Proof. intros H. unfold compose. apply ac_on_update_inv, compose_core_inv, H. Qed.

Lemma compose_with_input_inv c i k :
  cinv c -> k <= length i -> IP i -> cinv (compose cfg translate (ctx_with_input c i k)).
Proof.
  intros ((_ & Hs & _ & Hci & He & Hg) & _) Hk Hi. apply compose_inv.
  split; [exact Hk|]. split; [exact Hs|]. split; [exact Hi|]. split; [exact Hci|]. split; [exact He | exact Hg].
Qed.

Lemma cinv_ip c : cinv c -> IP (cx_input c).
Proof. intros H; apply H. Qed.

Lemma push_input_inv c ch : cinv c -> IP [ch] -> cinv (push_input cfg translate c ch).
Proof.
  intros H Hch. pose proof (cinv_ip c H) as Hi. unfold push_input. destruct (length (cx_input c) <=? cx_caret c) eqn:E.
  - apply compose_with_input_inv; [exact H| |apply IP_app; assumption]. rewrite app_length. cbn. lia.
  - apply Nat.leb_gt in E. apply compose_with_input_inv; [exact H| |].
    + rewrite app_length, firstn_length. cbn [length]. rewrite skipn_length. lia.
    + apply IP_app; [apply IP_firstn; exact Hi|]. apply (IP_app [ch]); [exact Hch | apply IP_skipn; exact Hi].
Qed.

Lemma pop_input_inv c n : cinv c -> cinv (fst (pop_input cfg translate c n)).
Proof.
  intros H. unfold pop_input. destruct (cx_caret c <? n) eqn:E; [exact H|]. apply Nat.ltb_ge in E.
  cbn [fst]. pose proof (cinv_ip c H) as Hi. apply compose_with_input_inv; [exact H| |].
  - destruct H as ((Hc & _) & _). rewrite app_length, firstn_length, skipn_length. lia.
  - apply IP_app; [apply IP_firstn | apply IP_skipn]; exact Hi.
Qed.

Lemma delete_input_inv c n : cinv c -> cinv (fst (delete_input cfg translate c n)).
Proof.
  intros H. unfold delete_input. destruct (length (cx_input c) <? cx_caret c + n) eqn:E; [exact H|].
  apply Nat.ltb_ge in E. cbn [fst]. pose proof (cinv_ip c H) as Hi. apply compose_with_input_inv; [exact H| |].
  - rewrite app_length, firstn_length, skipn_length. lia.
  - apply IP_app; [apply IP_firstn | apply IP_skipn]; exact Hi.
Qed.

Lemma clear_inv c : cinv c -> cinv (clear cfg translate c).
Proof.
  intros H. unfold clear. apply compose_inv.
  split; [cbn; lia|]. split; [constructor|]. split; [exact IP_nil|]. split; [apply H|]. split; [apply H|].
  intros G. destruct (cinv_geo c H G) as (_ & _). destruct H as ((_ & _ & _ & _ & _ & Hg) & _).
  split; [split; constructor | apply Hg, G].
Qed.

Lemma set_caret_pos_inv c pos : cinv c -> cinv (set_caret_pos cfg translate c pos).
Proof.
  intros H. unfold set_caret_pos. apply compose_with_input_inv; [exact H| |apply (cinv_ip c H)].
  destruct (length (cx_input c) <? pos) eqn:E; [lia|]. apply Nat.ltb_ge in E. exact E.
Qed.

Lemma set_input_inv c v : cinv c -> IP v -> cinv (set_input cfg translate c v).
Proof. intros H Hv. unfold set_input. apply compose_with_input_inv; [exact H | lia | exact Hv]. Qed.

Lemma back_inv c g r : cinv c -> sg_segs (cx_comp c) = g :: r -> seg_inv g.
Proof. intros ((_ & H & _) & _) E. rewrite E in H. inversion H; assumption. Qed.

(** what replacing the last segment [g0] by [g] needs for the geometry *)
Definition back_geo_ok (c : context) (g : segment) : Prop :=
  forall g0 r, sg_segs (cx_comp c) = g0 :: r ->
               s_start g = s_start g0 /\ seg_geo (length (sg_input (cx_comp c))) g.

Lemma cinv_set_back c g :
  cinv c -> seg_inv g -> (GE -> back_geo_ok c g) -> cinv (ctx_with_comp c (sg_set_back (cx_comp c) g)).
Proof.
  intros H Hg Hb. apply cinv_comp; [exact H| |apply set_back_input|]; [apply set_back_inv; [apply H | exact Hg]|].
  intros G. destruct (cinv_geo c H G) as (Hgeo & _). unfold sg_set_back.
  destruct (sg_segs (cx_comp c)) as [|g0 r] eqn:E; [exact Hgeo|].
  destruct (Hb G g0 r E) as (B1 & B2). apply (set_back_geo (cx_comp c) g g0 r Hgeo E B1 B2).
Qed.

(** the usual case: start and end unchanged *)
Lemma back_geo_same c g :
  cinv c -> (forall g0 r, sg_segs (cx_comp c) = g0 :: r -> s_start g = s_start g0 /\ s_end g = s_end g0) ->
  GE -> back_geo_ok c g.
Proof.
  intros H Hs G g0 r E. destruct (Hs g0 r E) as (S1 & S2). split; [exact S1|].
  destruct (cinv_geo c H G) as ((_ & Hf) & _). rewrite E in Hf. inversion Hf as [|? ? (A & B) _]; subst. split; lia.
Qed.

Lemma seg_reopen_geo n g k :
  seg_geo n g -> k <= n -> s_start (fst (seg_reopen g k)) = s_start g /\ seg_geo n (fst (seg_reopen g k)).
Proof.
  intros (A & B) Hk. unfold seg_reopen. destruct (negb (status_geb (s_status g) SSelected)); cbn [fst]; [split; [reflexivity | split; assumption]|].
  destruct (s_start g + s_length g =? k) eqn:E; cbn [fst]; [|split; [reflexivity | split; assumption]].
  apply Nat.eqb_eq in E. destruct (s_end g <? s_start g + s_length g) eqn:E2;
    [apply Nat.ltb_lt in E2 | apply Nat.ltb_ge in E2]; (split; [reflexivity|]);
    split; cbn [s_start s_end seg_with_status seg_with_tags seg_with_end]; lia.
Qed.

Lemma reopen_previous_segment_inv c : cinv c -> cinv (fst (reopen_previous_segment cfg translate c)).
Proof.
  intros H. unfold reopen_previous_segment.
  pose proof (trim_inv (cx_comp c) (cinv_segs c H)) as Ht. pose proof (trim_input (cx_comp c)) as Ei.
  destruct (trim (cx_comp c)) as [sg trimmed] eqn:Hte. cbn [fst] in Ht, Ei. destruct trimmed; [|exact H]. cbn [fst].
  assert (Hg0 : GE -> sgeo sg /\ cx_caret c <= length (sg_input sg)).
  { intros G. destruct (cinv_geo c H G) as (Hgeo & Hcar). pose proof (trim_geo (cx_comp c) Hgeo) as Tg.
    rewrite Hte in Tg. cbn [fst] in Tg. split; [exact Tg | rewrite Ei; exact Hcar]. }
  apply compose_inv, cinv_cpre. apply cinv_comp; [exact H| | |].
  - destruct (sg_segs sg) as [|g r] eqn:E; [rewrite E; exact Ht|].
    destruct (status_geb (s_status g) SSelected); [|rewrite E; exact Ht].
    apply set_back_inv; [rewrite E; exact Ht|]. apply seg_inv_reopen. inversion Ht; assumption.
  - destruct (sg_segs sg) as [|g r]; [exact Ei|].
    destruct (status_geb (s_status g) SSelected); [rewrite set_back_input|]; exact Ei.
  - intros G. destruct (Hg0 G) as (Hgeo & Hcar). destruct (sg_segs sg) as [|g r] eqn:E; [exact Hgeo|].
    destruct (status_geb (s_status g) SSelected); [|exact Hgeo]. unfold sg_set_back. rewrite E.
    destruct Hgeo as (Hc0 & Hf0). pose proof Hf0 as Hf1. rewrite E in Hf1. inversion Hf1 as [|? ? Hgg _]; subst.
    destruct (seg_reopen_geo _ g (cx_caret c) Hgg Hcar) as (R1 & R2).
    apply (set_back_geo sg _ g r (conj Hc0 Hf0) E R1 R2).
Qed.

Lemma clear_previous_segment_inv c : cinv c -> cinv (fst (clear_previous_segment cfg translate c)).
Proof.
  intros H. unfold clear_previous_segment. destruct (sg_segs (cx_comp c)) as [|g r]; [exact H|].
  destruct (length (cx_input c) <=? s_start g); [exact H|]. cbn [fst].
  apply set_input_inv; [exact H | apply IP_firstn, (cinv_ip c H)].
Qed.

Lemma reopen_sel_rev_inv l k l' : segs_inv l -> reopen_sel_rev l k = Some l' -> segs_inv l'.
Proof.
  revert l'. induction l as [|g r IH]; intros l' H E; [discriminate|]. inversion H; subst. cbn [reopen_sel_rev] in E.
  destruct (s_status g); try discriminate; try (apply IH; assumption).
  destruct (has_tag TSelectedBeforeEditing (s_tags g)); [discriminate|]. injection E as <-.
  constructor; [apply seg_inv_reopen|]; assumption.
Qed.

Lemma reopen_sel_rev_geo n l k l' :
  chain_rev l -> Forall (seg_geo n) l -> k <= n -> reopen_sel_rev l k = Some l' ->
  chain_rev l' /\ Forall (seg_geo n) l'.
Proof.
  revert l'. induction l as [|g r IH]; intros l' Hc Hf Hk E; [discriminate|].
  inversion Hf as [|? ? Hg Hr]; subst. cbn [reopen_sel_rev] in E.
  destruct (s_status g); try discriminate; try (apply IH; [apply (chain_tl (g :: r)), Hc | assumption..]).
  destruct (has_tag TSelectedBeforeEditing (s_tags g)); [discriminate|]. injection E as <-.
  destruct (seg_reopen_geo n g k Hg Hk) as (R1 & R2). destruct Hc as (C1 & C2).
  split; [split; [rewrite R1; exact C1 | exact C2] | constructor; assumption].
Qed.

Lemma reopen_previous_selection_inv c : cinv c -> cinv (fst (reopen_previous_selection cfg translate c)).
Proof.
  intros H. unfold reopen_previous_selection.
  destruct (reopen_sel_rev (sg_segs (cx_comp c)) (cx_caret c)) as [l|] eqn:E; [|exact H]. cbn [fst].
  apply compose_inv, cinv_cpre, cinv_comp; [exact H| |reflexivity|]. apply (reopen_sel_rev_inv _ _ _ (cinv_segs c H) E).
  intros G. destruct (cinv_geo c H G) as ((Hc0 & Hf0) & Hcar).
  destruct (reopen_sel_rev_geo _ _ _ _ Hc0 Hf0 Hcar E) as (R1 & R2). split; assumption.
Qed.

Lemma drop_unselected_inv l : segs_inv l -> segs_inv (fst (drop_unselected l)).
Proof.
  induction l as [|g r IH]; intros H; [exact H|]. cbn [drop_unselected].
  destruct (status_geb (s_status g) SSelected); [exact H|]. cbn [fst]. apply IH. inversion H; assumption.
Qed.

Lemma drop_unselected_geo n l : chain_rev l -> Forall (seg_geo n) l ->
  chain_rev (fst (drop_unselected l)) /\ Forall (seg_geo n) (fst (drop_unselected l)).
Proof.
  induction l as [|g r IH]; intros Hc Hf; [split; assumption|]. cbn [drop_unselected].
  destruct (status_geb (s_status g) SSelected); [split; assumption|]. cbn [fst].
  inversion Hf; subst. apply IH; [apply (chain_tl (g :: r)), Hc | assumption].
Qed.

Lemma clear_non_confirmed_inv c : cinv c -> cinv (fst (clear_non_confirmed c)).
Proof.
  intros H. unfold clear_non_confirmed. pose proof (drop_unselected_inv _ (cinv_segs c H)) as Hd.
  destruct (drop_unselected (sg_segs (cx_comp c))) as [l reverted] eqn:Ed. cbn [fst] in Hd.
  destruct reverted; [|exact H]. cbn [fst].
  apply cinv_comp; [exact H| |apply (forward_input (sg_with_segs (cx_comp c) l))|].
  apply (forward_inv (sg_with_segs (cx_comp c) l)). exact Hd.
  intros G. destruct (cinv_geo c H G) as ((Hc0 & Hf0) & _). apply forward_geo.
  pose proof (drop_unselected_geo _ (sg_segs (cx_comp c)) Hc0 Hf0) as Dg. rewrite Ed in Dg. cbn [fst] in Dg.
  destruct Dg as (D1 & D2). split; assumption.
Qed.

Lemma refresh_non_confirmed_inv c : cinv c -> cinv (fst (refresh_non_confirmed cfg translate c)).
Proof.
  intros H. unfold refresh_non_confirmed. pose proof (clear_non_confirmed_inv c H) as H1.
  destruct (clear_non_confirmed c) as [c1 reverted]. cbn [fst] in H1.
  destruct reverted; [|exact H]. apply compose_inv, cinv_cpre; exact H1.
Qed.

Lemma begin_editing_rev_inv l : segs_inv l -> segs_inv (begin_editing_rev l).
Proof.
  induction l as [|g r IH]; intros H; [exact H|]. inversion H; subst. cbn [begin_editing_rev].
  destruct (s_status g); try exact H; constructor; auto using seg_inv_tags; apply IH; assumption.
Qed.

Lemma begin_editing_rev_maps l :
  map s_start (begin_editing_rev l) = map s_start l /\ map s_end (begin_editing_rev l) = map s_end l.
Proof.
  induction l as [|g r (I1 & I2)]; [split; reflexivity|]. cbn [begin_editing_rev].
  destruct (s_status g); cbn [map]; try (split; reflexivity); rewrite ?I1, ?I2; split; reflexivity.
Qed.

Lemma begin_editing_inv c : cinv c -> cinv (begin_editing c).
Proof.
  intros H. unfold begin_editing. apply cinv_comp; [exact H| |reflexivity|]. apply begin_editing_rev_inv, H.
  intros G. destruct (cinv_geo c H G) as (Hgeo & _). destruct (begin_editing_rev_maps (sg_segs (cx_comp c))) as (M1 & M2).
  apply sgeo_same; assumption.
Qed.

Ltac same_geo H E :=
  apply (back_geo_same _ _ H); let g0' := fresh in let r0' := fresh in let E' := fresh in
  intros g0' r0' E'; rewrite E in E'; injection E' as <- <-; split; reflexivity.

Lemma seg_close_geo n g : seg_inv g -> GE -> seg_geo n g -> s_start (seg_close g) = s_start g /\ seg_geo n (seg_close g).
Proof.
  intros (_ & Hm) G (A & B). unfold seg_close. destruct (selected_cand g) as [c|] eqn:Ec; [|split; [reflexivity | split; assumption]].
  destruct (c_end c <? s_end g) eqn:E; [|split; [reflexivity | split; assumption]]. apply Nat.ltb_lt in E.
  split; [reflexivity|]. split; cbn; [|lia].
  unfold selected_cand, cand_at in Ec. destruct (s_menu g) as [m|] eqn:Em; [|discriminate].
  destruct (Hm m eq_refl) as (_ & _ & Hmp). unfold menu_at in Ec. destruct (menu_count m <=? s_sel g)%N; [discriminate|].
  apply nth_error_In in Ec. apply (HGE G _ m Hmp c Ec).
Qed.

Lemma highlight_inv c i : cinv c -> cinv (fst (highlight cfg translate c i)).
Proof.
  intros H. unfold highlight. destruct (sg_segs (cx_comp c)) as [|g r] eqn:E; [exact H|].
  destruct (s_menu g) as [m|] eqn:Em; [|exact H].
  set (requested := size_wrap (i + 1)).
  set (count := if (requested =? 0)%N then menu_count m else menu_prepare m requested).
  set (new_index := if (0 <? count)%N then N.min (count - 1) i else 0%N).
  destruct (s_sel g =? new_index)%N; [exact H|]. cbn [fst].
  apply compose_inv, cinv_cpre, cinv_set_back; [exact H| |same_geo H E].
  apply seg_inv_sel_at; [apply (back_inv c g r H E)|].
  intros m' Hm' Hne. rewrite Em in Hm'. injection Hm' as <-.
  assert (Hpos : (0 < menu_count m)%N) by (unfold menu_count; destruct m; [congruence | cbn; lia]).
  assert (Hcnt : (count <= menu_count m)%N /\ (requested <> 0 -> 0 < count)%N).
  { subst count. destruct (requested =? 0)%N eqn:Er.
    - split; [lia|]. apply N.eqb_eq in Er. congruence.
    - apply N.eqb_neq in Er. unfold menu_prepare. split; [lia|]. intros _. lia. }
  subst new_index. destruct (0 <? count)%N eqn:Ec.
  - apply N.ltb_lt in Ec. lia.
  - exact Hpos.
Qed.

Lemma set_option_inv c n v : cinv c -> cinv (set_option cfg translate c n v).
Proof.
  intros H. unfold set_option. destruct (is_composing _); [|exact H].
  apply (refresh_non_confirmed_inv (ctx_with_opts c (opts_set (cx_opts c) n v))). exact H.
Qed.

(** ---- states ---- *)
Lemma sinv_sink s t : sinv s -> sinv (sink s t).
Proof. intros H; exact H. Qed.
Lemma sinv_with s c : cinv c -> sinv (st_with_ctx s c).
Proof. intros H; exact H. Qed.

Lemma commit_inv s : sinv s -> sinv (fst (commit cfg translate s)).
Proof.
  intros H. unfold commit. destruct (negb (is_composing (st_ctx s))); [exact H|].
  destruct (hist_push_comp (cf_hist_guard cfg) (cx_hist (st_ctx s)) (cx_comp (st_ctx s)) (cx_input (st_ctx s))) as [[h okh] live] eqn:Ehp.
  match goal with |- context [ctx_commit_text ?c] => destruct (ctx_commit_text c) as [text ok] end. cbn [fst]. apply sinv_with.
  apply clear_inv. cbn [st_ctx st_with_ctx sink]. apply cinv_check; [intros _; left; reflexivity|].
  apply cinv_check.
  { intros ->. right; left. split; [reflexivity|]. destruct (cf_hist_guard cfg) eqn:Eg; [|reflexivity].
    pose proof (hist_push_comp_live (cx_hist (st_ctx s)) (cx_comp (st_ctx s)) (cx_input (st_ctx s))) as X.
    rewrite Ehp in X. discriminate X. }
  apply cinv_check; [intros _; left; reflexivity|].
  apply cinv_hist. exact H.
Qed.

Lemma on_select_inv s : sinv s -> sg_segs (cx_comp (st_ctx s)) <> [] -> sinv (on_select cfg translate s).
Proof.
  intros H Hne. unfold on_select.
  match goal with |- sinv (mkSt (st_ctx ?x) _ _ _ _ _ _ _) => assert (Hx : sinv x); [|exact Hx] end.
  destruct (sg_segs (cx_comp (st_ctx s))) as [|g0 r] eqn:E; [congruence|].
  pose proof (seg_inv_close g0 (back_inv _ _ _ H E)) as Hg.
  assert (Hcg : forall x, s_start x = s_start (seg_close g0) -> s_end x = s_end (seg_close g0) ->
                          GE -> back_geo_ok (st_ctx s) x).
  { intros x X1 X2 G g1 r1 E1. rewrite E in E1. injection E1 as <- <-.
    destruct (cinv_geo _ H G) as ((_ & Hf) & _). rewrite E in Hf. inversion Hf as [|? ? Hgg _]; subst.
    destruct (seg_close_geo _ g0 (back_inv _ _ _ H E) G Hgg) as (C1 & (C2 & C3)).
    split; [congruence | split; lia]. }
  destruct (s_end (seg_close g0) =? length (cx_input (st_ctx s))).
  - set (c1 := ctx_with_comp (st_ctx s) (sg_set_back (cx_comp (st_ctx s)) (seg_with_status (seg_close g0) SConfirmed))).
    assert (H1 : cinv c1) by (apply cinv_set_back; [exact H | apply seg_inv_status, Hg | apply Hcg; reflexivity]).
    destruct (get_option c1 opt_auto_commit).
    + apply commit_inv. exact H1.
    + apply sinv_with, cinv_comp; [exact H1| |apply forward_input|]. apply forward_inv, H1.
      intros G. apply forward_geo, (cinv_geo c1 H1 G).
  - set (c0 := ctx_with_comp (st_ctx s) (sg_set_back (cx_comp (st_ctx s)) (seg_close g0))).
    assert (H0 : cinv c0) by (apply cinv_set_back; [exact H | exact Hg | apply Hcg; reflexivity]).
    set (c1 := ctx_with_comp (st_ctx s) (fst (forward (sg_set_back (cx_comp (st_ctx s)) (seg_close g0))))).
    assert (H1 : cinv c1).
    { change c1 with (ctx_with_comp c0 (fst (forward (cx_comp c0)))).
      apply cinv_comp; [exact H0| |apply forward_input|]. apply forward_inv, H0.
      intros G. apply forward_geo, (cinv_geo c0 H0 G). }
    destruct (cx_caret (st_ctx s) <=? s_end (seg_close g0)); apply sinv_with;
      [apply set_caret_pos_inv | apply compose_inv, cinv_cpre]; exact H1.
Qed.

Lemma select_inv s i : sinv s -> sinv (fst (select cfg translate s i)).
Proof.
  intros H. unfold select. destruct (sg_segs (cx_comp (st_ctx s))) as [|g r] eqn:E; [exact H|].
  destruct (cand_at g i) as [cd|] eqn:Ec; [|exact H]. cbn [fst].
  apply on_select_inv; [|cbn; unfold sg_set_back; rewrite E; discriminate].
  apply sinv_with, cinv_set_back; [exact H| |same_geo H E].
  apply seg_inv_status, seg_inv_sel_at; [apply (back_inv _ _ _ H E)|].
  intros m Hm _. apply (cand_at_some g i cd Ec m Hm).
Qed.

Lemma confirm_current_selection_inv s : sinv s -> sinv (fst (confirm_current_selection cfg translate s)).
Proof.
  intros H. unfold confirm_current_selection. destruct (sg_segs (cx_comp (st_ctx s))) as [|g r] eqn:E; [exact H|].
  assert (H1 : sinv (st_with_ctx s (ctx_with_comp (st_ctx s) (sg_set_back (cx_comp (st_ctx s)) (seg_with_status g SSelected))))).
  { apply sinv_with, cinv_set_back; [exact H | apply seg_inv_status, (back_inv _ _ _ H E) | same_geo H E]. }
  assert (Hne : sg_segs (cx_comp (st_ctx (st_with_ctx s (ctx_with_comp (st_ctx s)
                  (sg_set_back (cx_comp (st_ctx s)) (seg_with_status g SSelected)))))) <> [])
    by (cbn; unfold sg_set_back; rewrite E; discriminate).
  destruct (selected_cand (seg_with_status g SSelected)); cbn [fst]; [apply on_select_inv; assumption|].
  destruct (s_end (seg_with_status g SSelected) =? s_start (seg_with_status g SSelected)); cbn [fst];
    [exact H1 | apply on_select_inv; assumption].
Qed.

Lemma delete_candidate_inv s i : sinv s -> sinv (fst (delete_candidate cfg s i)).
Proof.
  intros H. unfold delete_candidate. destruct (sg_segs (cx_comp (st_ctx s))) as [|g r] eqn:E; [exact H|].
  rewrite Hdel. destruct (cand_at g i) as [cd|] eqn:Ec; [|exact H]. cbn [fst].
  apply sinv_with, cinv_set_back; [exact H| |same_geo H E]. apply seg_inv_sel_at; [apply (back_inv _ _ _ H E)|].
  intros m Hm _. apply (cand_at_some g i cd Ec m Hm).
Qed.

Lemma delete_current_selection_inv s : sinv s -> sinv (fst (delete_current_selection cfg s)).
Proof.
  intros H. unfold delete_current_selection. destruct (sg_segs (cx_comp (st_ctx s))); [exact H|].
  apply delete_candidate_inv; exact H.
Qed.

(** ---- C++ integer conversions on small values ---- *)
Lemma int_of_size_small n : (Z.of_N n < 2147483648)%Z -> int_of_size n = Z.of_N n.
Proof.
  intros H. unfold int_of_size. rewrite Z.mod_small by lia.
  replace (Z.of_N n <? 2147483648)%Z with true by (symmetry; apply Z.ltb_lt; lia). reflexivity.
Qed.
Lemma size_of_int_small z : (0 <= z < 18446744073709551616)%Z -> size_of_int z = Z.to_N z.
Proof. intros H. unfold size_of_int. now rewrite Z.mod_small by lia. Qed.
Lemma size_wrap_small n : (n < 18446744073709551616)%N -> size_wrap n = n.
Proof. intros H. unfold size_wrap. now rewrite N.mod_small. Qed.

Lemma sel_small g m :
  seg_inv g -> s_menu g = Some m -> m <> [] ->
  int_of_size (s_sel g) = Z.of_N (s_sel g) /\ (Z.of_N (s_sel g) < Z.of_nat (length m))%Z /\ menu_bounded m.
Proof.
  intros H Hm Hne. destruct (proj2 H m Hm) as (Hb & Hs & _). specialize (Hs Hne). unfold menu_count in Hs.
  assert ((Z.of_N (s_sel g) < Z.of_nat (length m))%Z) by lia.
  split; [apply int_of_size_small; unfold menu_bounded in Hb; lia | auto].
Qed.

(** ---- Selector ---- *)
Lemma with_back_inv c f : cinv c -> (forall g r, sg_segs (cx_comp c) = g :: r -> seg_inv g -> seg_inv (f g)) ->
  (forall g, s_start (f g) = s_start g /\ s_end (f g) = s_end g) ->
  cinv (with_back c f).
Proof.
  intros H Hf Hse. unfold with_back. destruct (sg_segs (cx_comp c)) as [|g r] eqn:E; [exact H|].
  apply cinv_set_back; [exact H| |]. apply (Hf g r eq_refl). apply (back_inv c g r H E).
  apply (back_geo_same _ _ H). intros g0 r0 E0. rewrite E in E0. injection E0 as <- <-. apply Hse.
Qed.

Lemma set_sel_paging_inv c z :
  cinv c ->
  (forall g r m, sg_segs (cx_comp c) = g :: r -> s_menu g = Some m -> m <> [] -> (0 <= z < Z.of_nat (length m))%Z) ->
  cinv (set_sel_paging c z).
Proof.
  intros H Hz. unfold set_sel_paging. apply with_back_inv; [exact H| |intros g; split; reflexivity]. intros g r E Hg.
  apply seg_inv_tags, seg_inv_sel_at; [exact Hg|]. intros m Hm Hne.
  specialize (Hz g r m E Hm Hne). destruct (proj2 Hg m Hm) as (Hb & _). unfold menu_bounded in Hb.
  rewrite size_of_int_small by lia. unfold menu_count. lia.
Qed.

Lemma sel_previous_page_inv c : cinv c -> cinv (fst (sel_previous_page cfg c)).
Proof.
  intros H. unfold sel_previous_page. destruct (sg_segs (cx_comp c)) as [|g r] eqn:E; [exact H|]. cbn [fst].
  apply set_sel_paging_inv; [exact H|]. intros g' r' m E' Hm Hne. rewrite E in E'. injection E' as <- <-.
  destruct (sel_small g m (back_inv c g r H E) Hm Hne) as (Hi & Hlt & Hb). rewrite Hi.
  destruct (Z.of_N (s_sel g) <? cf_page_size cfg)%Z eqn:El; [lia|]. apply Z.ltb_ge in El. lia.
Qed.

Lemma sel_next_page_inv c : cinv c -> cinv (fst (sel_next_page cfg c)).
Proof.
  intros H. unfold sel_next_page. destruct (sg_segs (cx_comp c)) as [|g r] eqn:E; [exact H|].
  destruct (s_menu g) as [m|] eqn:Em; [|exact H].
  destruct m as [|c0 m0] eqn:Emm.
  { (* an empty menu: the index is irrelevant for the invariant *)
    match goal with |- cinv (fst (if ?a then (if ?b then _ else _) else if ?d then _ else _)) =>
      destruct a; [destruct b|destruct d] end; cbn [fst]; try exact H;
      (apply set_sel_paging_inv; [exact H|]; intros g' r' m' E' Hm' Hne; rewrite E in E'; injection E' as <- <-;
       rewrite Em in Hm'; injection Hm' as <-; congruence). }
  rewrite <- Emm in *. assert (Hne : m <> []) by (rewrite Emm; discriminate).
  destruct (sel_small g m (back_inv c g r H E) Em Hne) as (Hi & Hlt & Hb). unfold menu_bounded in Hb.
  set (ps := cf_page_size cfg) in *.
  assert (Hsz : size_of_int ps = Z.to_N ps) by (apply size_of_int_small; lia).
  assert (Hidx : int_of_size (size_wrap (s_sel g + size_of_int ps)) = (Z.of_N (s_sel g) + ps)%Z).
  { rewrite Hsz, size_wrap_small by lia. rewrite int_of_size_small; lia. }
  rewrite Hidx. set (index := (Z.of_N (s_sel g) + ps)%Z) in *.
  set (page_start := (Z.quot index ps * ps)%Z).
  assert (Hpg : (0 <= page_start <= index)%Z).
  { subst page_start. rewrite Z.quot_div_nonneg by lia. split; [apply Z.mul_nonneg_nonneg; [apply Z.div_pos|]; lia|].
    rewrite Z.mul_comm. apply Z.mul_div_le. lia. }
  assert (Hcnt : int_of_size (menu_prepare m (size_of_int (page_start + ps)))
                 = Z.min (page_start + ps) (Z.of_nat (length m))).
  { rewrite size_of_int_small by lia. unfold menu_prepare, menu_count. rewrite int_of_size_small; lia. }
  rewrite Hcnt. set (cnt := Z.min (page_start + ps) (Z.of_nat (length m))) in *.
  assert (Hlen0 : (0 < Z.of_nat (length m))%Z) by (rewrite Emm; cbn [length]; lia).
  destruct (cnt <=? page_start)%Z eqn:E1.
  - destruct (cf_page_down_cycle cfg); cbn [fst]; [|exact H].
    apply set_sel_paging_inv; [exact H|]. intros g' r' m' E' Hm' _. rewrite E in E'. injection E' as <- <-.
    rewrite Em in Hm'. injection Hm' as <-. lia.
  - apply Z.leb_gt in E1. destruct (cnt <=? index)%Z eqn:E2; cbn [fst];
      (apply set_sel_paging_inv; [exact H|]; intros g' r' m' E' Hm' _; rewrite E in E'; injection E' as <- <-;
       rewrite Em in Hm'; injection Hm' as <-); [apply Z.leb_le in E2 | apply Z.leb_gt in E2]; lia.
Qed.

Lemma sel_previous_candidate_inv c : cinv c -> cinv (fst (sel_previous_candidate c)).
Proof.
  intros H. unfold sel_previous_candidate. destruct (is_linear_layout c && negb (caret_at_end_of_input c)); [exact H|].
  destruct (sg_segs (cx_comp c)) as [|g r] eqn:E; [exact H|].
  destruct (int_of_size (s_sel g) <=? 0)%Z eqn:E0; [exact H|]. apply Z.leb_gt in E0. cbn [fst].
  apply set_sel_paging_inv; [exact H|]. intros g' r' m E' Hm Hne. rewrite E in E'. injection E' as <- <-.
  destruct (sel_small g m (back_inv c g r H E) Hm Hne) as (Hi & Hlt & Hb). rewrite Hi in *. lia.
Qed.

Lemma sel_next_candidate_inv c : cinv c -> cinv (fst (sel_next_candidate c)).
Proof.
  intros H. unfold sel_next_candidate. destruct (is_linear_layout c && negb (caret_at_end_of_input c)); [exact H|].
  destruct (sg_segs (cx_comp c)) as [|g r] eqn:E; [exact H|].
  destruct (s_menu g) as [m|] eqn:Em; [|exact H].
  match goal with |- cinv (fst (if ?a then _ else _)) => destruct a eqn:E1 end; [exact H|]. cbn [fst].
  apply set_sel_paging_inv; [exact H|]. intros g' r' m' E' Hm' Hne. rewrite E in E'. injection E' as <- <-.
  rewrite Em in Hm'. injection Hm' as <-.
  destruct (sel_small g m (back_inv c g r H E) Em Hne) as (Hi & Hlt & Hb). unfold menu_bounded in Hb.
  assert (Hidx : int_of_size (size_wrap (s_sel g + 1)) = (Z.of_N (s_sel g) + 1)%Z).
  { rewrite size_wrap_small by lia. rewrite int_of_size_small; lia. }
  rewrite Hidx in *. apply Z.leb_gt in E1.
  rewrite size_of_int_small in E1 by lia. unfold menu_prepare, menu_count in E1.
  rewrite int_of_size_small in E1 by lia. lia.
Qed.

Lemma sel_home_inv c : cinv c -> cinv (fst (sel_home c)).
Proof.
  intros H. unfold sel_home. destruct (sg_segs (cx_comp c)) as [|g r] eqn:E; [exact H|].
  destruct (0 <? s_sel g)%N; [|exact H]. cbn [fst]. apply with_back_inv; [exact H| |intros g1; split; reflexivity]. intros g' r' _ Hg.
  apply seg_inv_sel_at; [exact Hg|]. intros m _ Hne. unfold menu_count. destruct m; [congruence | cbn; lia].
Qed.

Lemma sel_end_inv c : cinv c -> cinv (fst (sel_end c)).
Proof. intros H. unfold sel_end. destruct (cx_caret c <? length (cx_input c)); [exact H | apply sel_home_inv, H]. Qed.

Lemma on_ctx_b_inv s f : sinv s -> (forall c, cinv c -> cinv (fst (f c))) -> sinv (fst (on_ctx_b s f)).
Proof. intros H Hf. unfold on_ctx_b. specialize (Hf _ H). destruct (f (st_ctx s)). exact Hf. Qed.
Lemma on_ctx_inv s f : sinv s -> (forall c, cinv c -> cinv (f c)) -> sinv (on_ctx s f).
Proof. intros H Hf. apply Hf, H. Qed.

Lemma run_sel_action_inv s a : sinv s -> sinv (fst (run_sel_action cfg s a)).
Proof.
  intros H. destruct a; cbn [run_sel_action]; try exact H; apply on_ctx_b_inv; try exact H; intros c Hc.
  - apply sel_previous_candidate_inv, Hc.
  - apply sel_next_candidate_inv, Hc.
  - apply sel_previous_page_inv, Hc.
  - apply sel_next_page_inv, Hc.
  - apply sel_home_inv, Hc.
  - apply sel_end_inv, Hc.
Qed.

Lemma kbp_process_inv {A} (run : state -> A -> state * bool) km fb s k :
  (forall s a, sinv s -> sinv (fst (run s a))) -> sinv s -> sinv (fst (kbp_process run km fb s k)).
Proof.
  intros Hr H. unfold kbp_process.
  assert (Ha : forall s k, sinv s -> sinv (fst (kbp_accept run km s k))).
  { intros s0 k0 H0. unfold kbp_accept. destruct (keymap_find km k0); [apply Hr; exact H0 | exact H0]. }
  pose proof (Ha s k H) as H1. destruct (kbp_accept run km s k) as [s1 ok1]. cbn [fst] in H1.
  destruct ok1; [exact H1|]. destruct (k_ctrl k || k_alt k); [exact H1|].
  destruct (k_shift k && fb); [|exact H1].
  pose proof (Ha s1 (mkKey (k_code k) (shift_as_control (k_mod k))) H1) as H2.
  destruct (kbp_accept run km s1 _) as [s2 ok2]. cbn [fst] in H2. destruct ok2; [exact H2|].
  pose proof (Ha s2 (mkKey (k_code k) (clear_shift (k_mod k))) H2) as H3.
  destruct (kbp_accept run km s2 _) as [s3 ok3]. cbn [fst] in H3. destruct ok3; exact H3.
Qed.

Lemma select_candidate_at_inv s i : sinv s -> sinv (fst (select_candidate_at cfg translate s i)).
Proof.
  intros H. unfold select_candidate_at. destruct (sg_segs (cx_comp (st_ctx s))); [exact H|].
  destruct (cf_page_size cfg <=? i)%Z; [exact H | apply select_inv, H].
Qed.

Lemma selector_process_inv s k : sinv s -> sinv (fst (selector_process cfg translate s k)).
Proof.
  intros H. unfold selector_process. destruct (k_release k || k_alt k || k_super k); [exact H|].
  destruct (sg_segs (cx_comp (st_ctx s))) as [|g r]; [exact H|].
  destruct ((match s_menu g with None => true | Some _ => false end) || has_tag TRaw (s_tags g)); [exact H|].
  pose proof (kbp_process_inv (run_sel_action cfg) (sel_keymap (st_ctx s)) false s k (fun s a => run_sel_action_inv s a) H) as H1.
  destruct (kbp_process (run_sel_action cfg) (sel_keymap (st_ctx s)) false s k) as [s1 r1]. cbn [fst] in H1.
  destruct (negb (presult_is_noop r1)); [exact H1|].
  destruct (0 <=? select_key_index cfg k)%Z; [apply select_candidate_at_inv, H1 | exact H1].
Qed.

(** ---- Speller ---- *)
Lemma speller_process_inv s k : sinv s -> sinv (fst (speller_process cfg translate s k)).
Proof.
  intros H. unfold speller_process.
  destruct (k_release k || k_ctrl k || k_alt k || k_super k); [exact H|].
  destruct ((k_code k <? 32) || (127 <=? k_code k))%Z eqn:Er; [exact H|].
  apply orb_false_iff in Er as (E1 & E2). apply Z.ltb_ge in E1. apply Z.leb_gt in E2.
  repeat match goal with |- sinv (fst (if ?b then _ else _)) => destruct b; [exact H|] end.
  cbn [fst]. apply on_ctx_inv; [exact H|]. intros c Hc.
  apply begin_editing_inv, push_input_inv; [exact Hc|]. apply IP_key. lia.
Qed.

(** ---- Navigator ---- *)
Lemma begin_move_inv s : sinv s -> sinv (begin_move s).
Proof.
  intros H. unfold begin_move. pose proof (begin_editing_inv _ H) as H1.
  destruct (negb (bytes_eqb (st_nav_input s) (cx_input (begin_editing (st_ctx s))))
            || (spans_end (st_spans s) <? cx_caret (begin_editing (st_ctx s)))); exact H1.
Qed.

Lemma caret_to_inv s pos : sinv s -> sinv (st_with_ctx s (set_caret_pos cfg translate (st_ctx s) pos)).
Proof. intros H. apply set_caret_pos_inv, H. Qed.

Lemma jump_left_inv s p : sinv s -> sinv (fst (jump_left cfg translate s p)).
Proof. intros H. unfold jump_left. match goal with |- sinv (fst (if ?b then _ else _)) => destruct b end; [apply caret_to_inv|]; exact H. Qed.
Lemma jump_right_inv s p : sinv s -> sinv (fst (jump_right cfg translate s p)).
Proof. intros H. unfold jump_right. match goal with |- sinv (fst (if ?b then _ else _)) => destruct b end; [apply caret_to_inv|]; exact H. Qed.
Lemma move_left_inv s : sinv s -> sinv (fst (move_left cfg translate s)).
Proof. intros H. unfold move_left. destruct (cx_caret (st_ctx s) =? 0); [|apply caret_to_inv]; exact H. Qed.
Lemma move_right_inv s : sinv s -> sinv (fst (move_right cfg translate s)).
Proof. intros H. unfold move_right. destruct (length (cx_input (st_ctx s)) <=? cx_caret (st_ctx s)); [|apply caret_to_inv]; exact H. Qed.
Lemma go_home_inv s : sinv s -> sinv (fst (go_home cfg translate s)).
Proof.
  intros H. unfold go_home.
  match goal with |- sinv (fst (if ?b then _ else if ?d then _ else _)) => destruct b; [|destruct d] end;
    try apply caret_to_inv; exact H.
Qed.
Lemma go_to_end_inv s : sinv s -> sinv (fst (go_to_end cfg translate s)).
Proof. intros H. unfold go_to_end. match goal with |- sinv (fst (if ?b then _ else _)) => destruct b end; [apply caret_to_inv|]; exact H. Qed.

Lemma or_else_inv r f : sinv (fst r) -> (forall s, sinv s -> sinv (fst (f s))) -> sinv (fst (or_else r f)).
Proof. intros H Hf. unfold or_else. destruct r as [s ok]. destruct ok; [exact H | apply Hf, H]. Qed.

Lemma run_nav_action_inv s a : sinv s -> sinv (fst (run_nav_action cfg translate s a)).
Proof.
  intros H. pose proof (begin_move_inv s H) as H1.
  destruct a; cbn [run_nav_action fst]; try exact H.
  - apply or_else_inv; [|intros; apply go_to_end_inv; assumption].
    destruct ((1 <? spans_count (st_spans (begin_move s))) && _); [apply jump_left_inv | apply move_left_inv]; exact H1.
  - apply or_else_inv; [apply move_left_inv, H1 | intros; apply go_to_end_inv; assumption].
  - apply or_else_inv; [apply move_right_inv, H1 | intros; apply go_home_inv; assumption].
  - apply or_else_inv; [apply jump_left_inv, H1 | intros; apply go_to_end_inv; assumption].
  - apply or_else_inv; [apply jump_right_inv, H1 | intros; apply go_to_end_inv; assumption].
  - apply go_home_inv, H1.
  - apply go_to_end_inv, H1.
Qed.

Lemma navigator_process_inv s k : sinv s -> sinv (fst (navigator_process cfg translate s k)).
Proof.
  intros H. unfold navigator_process. destruct (k_release k); [exact H|].
  destruct (negb (is_composing (st_ctx s))); [exact H|].
  apply kbp_process_inv; [intros; apply run_nav_action_inv; assumption | exact H].
Qed.

(** ---- Editor ---- *)
Lemma ed_revert_last_edit_inv s : sinv s -> sinv (ed_revert_last_edit cfg translate s).
Proof.
  intros H. unfold ed_revert_last_edit. apply or_else_inv.
  - apply on_ctx_b_inv; [exact H | intros; apply reopen_previous_selection_inv; assumption].
  - intros s1 H1.
    pose proof (on_ctx_b_inv s1 (fun c => pop_input cfg translate c 1) H1 (fun c Hc => pop_input_inv c 1 Hc)) as H2.
    destruct (on_ctx_b s1 (fun c => pop_input cfg translate c 1)) as [s2 ok]. cbn [fst] in H2.
    destruct ok; [|exact H2]. apply on_ctx_b_inv; [exact H2 | intros; apply reopen_previous_segment_inv; assumption].
Qed.

Lemma run_editor_action_inv s a : sinv s -> sinv (fst (run_editor_action cfg translate s a)).
Proof.
  intros H. destruct a; cbn [run_editor_action fst]; try exact H.
  - apply or_else_inv; [apply confirm_current_selection_inv, H | intros; apply commit_inv; assumption].
  - apply or_else_inv; [apply on_ctx_b_inv; [exact H | intros; apply reopen_previous_segment_inv; assumption]
                       | intros; apply confirm_current_selection_inv; assumption].
  - destruct (ctx_selected_cand (st_ctx s)) as [cd|]; [|exact H]. destruct (c_comment cd); [exact H|]. cbn [fst].
    apply on_ctx_inv; [apply sinv_sink, H | intros; apply clear_inv; assumption].
  - apply commit_inv. apply on_ctx_inv; [exact H | intros; apply clear_non_confirmed_inv; assumption].
  - destruct (comp_script_text (cx_comp (st_ctx s))) as [t ok]. cbn [fst].
    apply on_ctx_inv; [|intros; apply clear_inv; assumption]. apply sinv_sink. apply on_ctx_inv; [exact H|].
    intros c Hc. apply cinv_check; [intros _; left; reflexivity | exact Hc].
  - pose proof (confirm_current_selection_inv s H) as H1.
    destruct (confirm_current_selection cfg translate s) as [s1 ok]. cbn [fst] in H1.
    destruct (negb ok || negb (has_menu (st_ctx s1))); cbn [fst]; [apply commit_inv|]; exact H1.
  - apply ed_revert_last_edit_inv, H.
  - apply or_else_inv; [apply or_else_inv|].
    + apply on_ctx_b_inv; [exact H | intros; apply reopen_previous_segment_inv; assumption].
    + intros; apply on_ctx_b_inv; [assumption | intros; apply reopen_previous_selection_inv; assumption].
    + intros; apply on_ctx_b_inv; [assumption | intros; apply pop_input_inv; assumption].
  - apply ed_revert_last_edit_inv, H.
  - apply delete_current_selection_inv, H.
  - apply on_ctx_inv; [exact H | intros; apply delete_input_inv; assumption].
  - pose proof (on_ctx_b_inv s (clear_previous_segment cfg translate) H (fun c Hc => clear_previous_segment_inv c Hc)) as H1.
    destruct (on_ctx_b s (clear_previous_segment cfg translate)) as [s1 ok]. cbn [fst] in H1.
    destruct ok; cbn [fst]; [exact H1|]. apply on_ctx_inv; [exact H1 | intros; apply clear_inv; assumption].
Qed.

Lemma editor_process_inv s k : sinv s -> sinv (fst (editor_process cfg translate s k)).
Proof.
  intros H. unfold editor_process. destruct (k_release k); [exact H|].
  assert (H1 : sinv (fst (if is_composing (st_ctx s)
                          then kbp_process (run_editor_action cfg translate) (editor_keymap cfg) true s k
                          else (s, PNoop)))).
  { destruct (is_composing (st_ctx s)); [|exact H].
    apply kbp_process_inv; [intros; apply run_editor_action_inv; assumption | exact H]. }
  destruct (if is_composing (st_ctx s) then _ else _) as [s1 r]. cbn [fst] in H1.
  destruct (negb (presult_is_noop r)); [exact H1|].
  match goal with |- sinv (fst (if ?b then _ else _)) => destruct b eqn:Eb end; [|exact H1].
  destruct (editor_char_handler cfg); cbn [fst]; try exact H1.
  - apply commit_inv, H1.
  - apply on_ctx_inv; [exact H1|]. intros c Hc. apply begin_editing_inv, push_input_inv; [exact Hc|].
    apply IP_key. apply andb_prop in Eb as (Eb & E2). apply andb_prop in Eb as (_ & E1).
    apply Z.ltb_lt in E1, E2. lia.
Qed.

Lemma shape_process_inv s k : sinv s -> sinv (fst (shape_process s k)).
Proof.
  intros H. unfold shape_process.
  repeat match goal with |- sinv (fst (if ?b then _ else _)) => destruct b; [exact H|] end. exact H.
Qed.

(** ---- Punctuator ---- *)
Definition hd_map (f : segment -> segment) (l : list segment) : list segment :=
  match l with [] => [] | g :: r => f g :: r end.
Lemma map_front_eq f l : map_front f l = rev (hd_map f (rev l)).
Proof. unfold map_front. destruct (rev l); reflexivity. Qed.
Lemma map_front_Forall (P : segment -> Prop) f l : (forall g, P g -> P (f g)) -> Forall P l -> Forall P (map_front f l).
Proof.
  intros Hf H. rewrite map_front_eq. apply Forall_rev. apply Forall_rev in H. destruct (rev l) as [|g r]; [exact H|].
  cbn. inversion H; subst. constructor; [apply Hf|]; assumption.
Qed.
Lemma map_front_map {B} (p : segment -> B) f l : (forall g, p (f g) = p g) -> map p (map_front f l) = map p l.
Proof.
  intros Hf. rewrite map_front_eq, map_rev.
  assert (E : map p (hd_map f (rev l)) = map p (rev l)) by (destruct (rev l) as [|g r]; [reflexivity | cbn; rewrite Hf; reflexivity]).
  rewrite E, <- map_rev, rev_involutive. reflexivity.
Qed.

Lemma alternate_punct_inv c b d : cinv c -> cinv (fst (alternate_punct c b d)).
Proof.
  intros H. unfold alternate_punct. destruct d; try exact H.
  destruct (sg_segs (cx_comp c)) as [|g r] eqn:E; [exact H|].
  destruct (negb (status_geb SVoid (s_status g)) && has_tag TPunct (s_tags g)); [|exact H].
  destruct (substr_se (cx_input c) (s_start g) (s_end g)) as [t ok].
  assert (H1 : cinv (ctx_check c ok ErrSubstr)) by (apply cinv_check; [intros _; left; reflexivity | exact H]).
  assert (E1 : sg_segs (cx_comp (ctx_check c ok ErrSubstr)) = g :: r) by (destruct ok; exact E).
  destruct (bytes_eqb [b] t); [|exact H1].
  destruct (s_menu g) as [m|] eqn:Em; [|exact H1].
  destruct (menu_prepare m (size_wrap (s_sel g + 2)) =? 0)%N eqn:Ez; [exact H1|]. cbn [fst].
  apply cinv_set_back; [exact H1| |same_geo H1 E1].
  apply seg_inv_status, seg_inv_sel_at; [apply (back_inv _ g r H1 E1)|].
  intros m' Hm' Hne. rewrite Em in Hm'. injection Hm' as <-. apply N.eqb_neq in Ez.
  pose proof (N.mod_lt (size_wrap (s_sel g + 1)) _ Ez) as Hlt. unfold menu_prepare in *. lia.
Qed.

Lemma pair_punct_inv s fs b : sinv s -> sinv (fst (pair_punct cfg translate s fs b)).
Proof.
  intros H. unfold pair_punct. destruct (sg_segs (cx_comp (st_ctx s))) as [|g r] eqn:E; [exact H|].
  destruct (negb (status_geb SVoid (s_status g)) && has_tag TPunct (s_tags g)); [|exact H].
  destruct (s_menu g) as [m|] eqn:Em; [|exact H].
  destruct (menu_prepare m 2 <? 2)%N eqn:E2; [exact H|]. cbn [fst].
  apply confirm_current_selection_inv. unfold sinv. cbn [st_ctx].
  apply cinv_set_back; [exact H| |same_geo H E]. apply seg_inv_sel_at; [apply (back_inv _ g r H E)|].
  intros m' Hm' Hne. rewrite Em in Hm'. injection Hm' as <-. apply N.ltb_ge in E2. unfold menu_prepare in E2.
  match goal with |- (?x mod 2 < _)%N => pose proof (N.mod_lt x 2 ltac:(lia)) end. lia.
Qed.

Lemma reconvert_digit_separator_inv c b : cinv c -> cinv (fst (reconvert_digit_separator cfg translate c b)).
Proof.
  intros H. unfold reconvert_digit_separator.
  destruct (match cf_digit_seps cfg with [] => true | _ => false end); [exact H|].
  destruct (negb (bytes_eqb (cx_input c) [b])); [exact H|].
  destruct (segs_fwd (cx_comp c)) as [|g0 r0]; [exact H|].
  destruct (has_tag TPunctNumber (s_tags g0)); [|exact H]. cbn [fst].
  apply reopen_previous_segment_inv. apply cinv_comp; [exact H| |reflexivity|].
  - cbn [sg_segs sg_with_segs]. apply map_front_Forall; [|apply (cinv_segs c H)].
    intros g Hg. apply seg_inv_status, seg_inv_tags, Hg.
  - intros G. destruct (cinv_geo c H G) as (Hgeo & _). apply sgeo_same; [| |exact Hgeo]; cbn [sg_segs sg_with_segs];
      apply map_front_map; intros g; reflexivity.
Qed.

Lemma punctuator_process_inv s k : sinv s -> sinv (fst (punctuator_process cfg translate s k)).
Proof.
  intros H. unfold punctuator_process.
  destruct (k_release k || k_ctrl k || k_alt k || k_super k); [exact H|].
  destruct ((k_code k <? 32) || (127 <=? k_code k))%Z eqn:Er; [exact H|].
  apply orb_false_iff in Er as (E1 & E2). apply Z.ltb_ge in E1. apply Z.leb_gt in E2.
  assert (Hkey : IP [byte_of_N (Z.to_N (k_code k))]) by (apply IP_key; lia).
  assert (Hpush : forall s0, sinv s0 -> sinv (on_ctx s0 (fun c => push_input cfg translate c (byte_of_N (Z.to_N (k_code k)))))).
  { intros s0 H0. apply on_ctx_inv; [exact H0|]. intros c Hc. apply push_input_inv; assumption. }
  cbv zeta.
  destruct (get_option (st_ctx s) opt_ascii_punct); [exact H|].
  match goal with |- sinv (fst (if ?b then _ else _)) => destruct b end; [cbn [fst]; apply commit_inv, Hpush, H|].
  match goal with |- sinv (fst (if ?b then _ else _)) => destruct b end; [exact H|].
  match goal with |- sinv (fst (if ?b then _ else _)) => destruct b end.
  { pose proof (Hpush s H) as H1.
    match goal with |- sinv (fst (if ?b then _ else _)) => destruct b end; [|exact H1].
    destruct (cf_digit_sep_commit cfg); cbn [fst]; [apply commit_inv, H1|].
    apply on_ctx_inv; [exact H1|]. intros c Hc. apply cinv_comp; [exact Hc | apply forward_inv, Hc | apply forward_input|].
    intros G. apply forward_geo, (cinv_geo c Hc G). }
  destruct (punct_lookup cfg (cx_opts (st_ctx s)) (byte_of_N (Z.to_N (k_code k)))) as [d|]; [|exact H].
  pose proof (alternate_punct_inv (st_ctx s) (byte_of_N (Z.to_N (k_code k))) d H) as Ha.
  destruct (alternate_punct (st_ctx s) (byte_of_N (Z.to_N (k_code k))) d) as [c1 alt]. cbn [fst] in Ha.
  destruct alt; [exact Ha|].
  pose proof (reconvert_digit_separator_inv c1 (byte_of_N (Z.to_N (k_code k))) Ha) as Hr.
  destruct (reconvert_digit_separator cfg translate c1 (byte_of_N (Z.to_N (k_code k)))) as [c2 rec]. cbn [fst] in Hr.
  match goal with |- context [punct_is_translated (st_ctx ?x) TPunct] => set (s1 := x) end.
  assert (H1 : sinv s1) by (subst s1; destruct rec; [exact Hr | apply Hpush; exact Ha]).
  clearbody s1. cbn [fst].
  destruct (punct_is_translated (st_ctx s1) TPunct); [|exact H1].
  destruct d as [v | l | [cm|] [pr|]]; try exact H1.
  - apply confirm_current_selection_inv, H1.
  - apply commit_inv, H1.
  - apply commit_inv, H1.
  - apply pair_punct_inv, H1.
Qed.

(** ---- KeyBinder ---- *)
Lemma reinterpret_paging_key_inv s k : sinv s -> sinv (fst (reinterpret_paging_key cfg translate s k)).
Proof.
  intros H. unfold reinterpret_paging_key. destruct (k_release k); [exact H|]. cbv zeta.
  match goal with |- sinv (fst (if ?b then _ else _)) => destruct b end; [exact H|].
  match goal with |- sinv (fst (if ?b then _ else _)) => destruct b end; [|exact H].
  destruct (cx_input (st_ctx s)) as [|b0 r0] eqn:Ei; [exact H|].
  match goal with |- sinv (fst (if ?b then _ else _)) => destruct b end; [exact H|].
  cbn [fst]. unfold sinv. cbn [st_ctx on_ctx st_with_ctx]. apply push_input_inv; [exact H|].
  apply (IP_key 46). lia.
Qed.

(** ---- ascii_composer ---- *)
Lemma sinv_with_ac s a : sinv s -> sinv (st_with_ac s a).
Proof. intros H; exact H. Qed.
Lemma cinv_conn c b : cinv c -> cinv (ctx_with_conn c b).
Proof. intros H; exact H. Qed.
Lemma commit_text_inv s t : sinv s -> sinv (commit_text s t).
Proof. intros H; exact H. Qed.

Lemma ac_switch_inv s m st : sinv s -> sinv (ac_switch cfg translate s m st).
Proof.
  intros H. unfold ac_switch. apply on_ctx_inv; [|intros c Hc; apply set_option_inv, Hc].
  destruct (is_composing (st_ctx s)); [|exact H].
  assert (H0 : sinv (on_ctx s (fun c => ctx_with_conn c false))) by exact H.
  destruct st.
  - destruct m; [|exact H0]. exact H0.
  - apply confirm_current_selection_inv, H0.
  - apply commit_inv. apply on_ctx_inv; [exact H0|]. intros c Hc. apply clear_non_confirmed_inv, Hc.
  - apply on_ctx_inv; [exact H0|]. intros c Hc. apply clear_inv, Hc.
  - exact H0.
Qed.

Lemma ac_toggle_with_key_inv s code : sinv s -> sinv (ac_toggle_with_key cfg translate s code).
Proof.
  intros H. unfold ac_toggle_with_key. destruct (ac_find (cf_ascii_keys cfg) code); [|exact H].
  unfold ac_with_caps. apply sinv_with_ac, ac_switch_inv, H.
Qed.

Lemma ac_process_caps_lock_inv s k : sinv s -> sinv (fst (ac_process_caps_lock cfg translate s k)).
Proof.
  intros H. unfold ac_process_caps_lock.
  destruct (k_code k =? XK_Caps_Lock)%Z.
  - destruct (negb (k_release k)); [|exact H].
    match goal with |- sinv (fst (if ?b then _ else _)) => destruct b end; [exact H|].
    cbn [fst]. apply ac_switch_inv. exact H.
  - destruct (k_caps k); [|exact H].
    match goal with |- sinv (fst (if ?b then _ else _)) => destruct b end; [|exact H].
    cbn [fst]. apply commit_text_inv, H.
Qed.

Lemma ascii_composer_process_inv s k : sinv s -> sinv (fst (ascii_composer_process cfg translate s k)).
Proof.
  intros H. unfold ascii_composer_process.
  destruct ((k_shift k && k_ctrl k) || k_alt k || k_super k); [exact H|].
  assert (H1 : sinv (fst (if ac_style_is_noop (ac_caps_style cfg) then (s, PNoop) else ac_process_caps_lock cfg translate s k))).
  { destruct (ac_style_is_noop (ac_caps_style cfg)); [exact H | apply ac_process_caps_lock_inv, H]. }
  destruct (if ac_style_is_noop (ac_caps_style cfg) then (s, PNoop) else ac_process_caps_lock cfg translate s k) as [s1 r].
  cbn [fst] in H1. destruct (negb (presult_is_noop r)); [exact H1|].
  destruct (k_code k =? XK_Eisu_toggle)%Z.
  { destruct (negb (k_release k)); [|exact H1]. cbn [fst]. apply ac_toggle_with_key_inv. exact H1. }
  cbv zeta.
  match goal with |- sinv (fst (if ?b then _ else _)) => destruct b end.
  - destruct (k_release k).
    + destruct (ac_shift (st_ac s1) || ac_ctrl (st_ac s1)); [|exact H1]. cbn [fst]. unfold ac_unpress. apply sinv_with_ac.
      match goal with |- sinv (if ?b then _ else _) => destruct b end; [apply ac_toggle_with_key_inv|]; exact H1.
    + destruct (negb (ac_shift (st_ac s1) || ac_ctrl (st_ac s1))); exact H1.
  - assert (H2 : sinv (ac_unpress s1)) by exact H1.
    match goal with |- sinv (fst (if ?b then _ else _)) => destruct b end; [exact H2|].
    destruct (get_option (st_ctx (ac_unpress s1)) opt_ascii_mode); [|exact H2].
    destruct (negb (is_composing (st_ctx (ac_unpress s1)))); [exact H2|].
    destruct (negb (k_release k) && (32 <=? k_code k)%Z && (k_code k <? 128)%Z) eqn:Ek; [|exact H2].
    cbn [fst]. apply on_ctx_inv; [exact H2|]. intros c Hc. apply push_input_inv; [exact Hc|].
    apply andb_prop in Ek as (Ek & E3). apply andb_prop in Ek as (_ & E2).
    apply IP_key. lia.
Qed.

Lemma kb_perform_action_inv s a : sinv s -> sinv (kb_perform_action cfg translate s a).
Proof.
  intros H. destruct a; cbn [kb_perform_action]; try exact H; apply on_ctx_inv; try exact H; intros c Hc; apply set_option_inv, Hc.
Qed.

Lemma fold_replay_inv (f : state -> key -> state * bool) keys :
  (forall x tk, sinv x -> sinv (fst (f x tk))) -> forall s, sinv s -> sinv (fold_left (fun x tk => fst (f x tk)) keys s).
Proof. intros Hf. induction keys as [|tk r IH]; intros s H; [exact H|]. cbn [fold_left]. apply IH, Hf, H. Qed.

Lemma key_binder_process_inv R red s k :
  (forall f, R = Some f -> forall x tk, sinv x -> sinv (fst (f x tk))) ->
  (R = None -> red = true \/ cf_kb_guard cfg = false) ->
  sinv s -> sinv (fst (key_binder_process cfg translate R red s k)).
Proof.
  intros HR HN H. unfold key_binder_process.
  destruct (red || match cf_bindings cfg with [] => true | _ => false end) eqn:Er; [exact H|].
  apply orb_false_iff in Er as (Er & _).
  pose proof (reinterpret_paging_key_inv s k H) as H1.
  destruct (reinterpret_paging_key cfg translate s k) as [s1 re]. cbn [fst] in H1. destruct re; [exact H1|].
  destruct (find _ (kb_vector cfg k)) as [b|]; [|exact H1].
  destruct (kb_act b) as [keys | o | o | o | sc] eqn:Ea; cbn [fst];
    try (rewrite <- Ea; apply kb_perform_action_inv, H1).
  destruct keys as [|tk keys]; [exact H1|]. destruct R as [f|]; cbn [fst].
  - apply fold_replay_inv; [apply (HR f eq_refl) | exact H1].
  - apply on_ctx_inv; [exact H1|]. intros c Hc. apply cinv_err; [|exact Hc]. right; right; left. split; [reflexivity|].
    destruct (HN eq_refl) as [X | X]; [congruence | exact X].
Qed.

Lemma proc_of_inv kb i s k :
  (forall x, sinv x -> sinv (fst (kb x k))) -> sinv s -> sinv (fst (proc_of cfg translate kb i s k)).
Proof.
  intros Hkb H. destruct i; cbn [proc_of];
    [apply speller_process_inv | apply punctuator_process_inv | apply selector_process_inv
     | apply navigator_process_inv | apply editor_process_inv | apply Hkb | apply ascii_composer_process_inv]; exact H.
Qed.

Lemma run_processors_inv ps k :
  (forall p, In p ps -> forall s, sinv s -> sinv (fst (p s k))) ->
  forall s, sinv s -> sinv (fst (run_processors ps s k)).
Proof.
  induction ps as [|p r IH]; intros Hp s H; cbn [run_processors]; [exact H|].
  pose proof (Hp p (or_introl eq_refl) s H) as H1. destruct (p s k) as [s1 ret]. cbn [fst] in H1.
  destruct ret; cbn [fst]; try exact H1. apply IH; [|exact H1]. intros q Hq. apply Hp. right; exact Hq.
Qed.

Lemma process_key_gen_inv kb s k :
  (forall x, sinv x -> sinv (fst (kb x k))) -> sinv s -> sinv (fst (process_key_gen cfg translate kb s k)).
Proof.
  intros Hkb H. unfold process_key_gen.
  assert (H1 : sinv (fst (run_processors (processors cfg translate kb) s k))).
  { apply run_processors_inv; [|exact H]. intros p Hp s0 H0. unfold processors in Hp. apply in_map_iff in Hp as (i & <- & _).
    apply proc_of_inv; assumption. }
  destruct (run_processors (processors cfg translate kb) s k) as [s1 ret]. cbn [fst] in H1.
  assert (H2 : sinv (on_ctx s1 (fun c => ctx_with_hist c (hist_push_key (cx_hist c) k)))).
  { apply on_ctx_inv; [exact H1|]. intros c Hc. apply cinv_hist, Hc. }
  pose proof (shape_process_inv _ k H2) as Hs.
  destruct ret; cbn [fst]; try exact H1;
    cbv zeta; destruct (shape_process (on_ctx s1 (fun c => ctx_with_hist c (hist_push_key (cx_hist c) k))) k) as [sx rx];
    destruct rx; exact Hs.
Qed.

(** the re-entered ProcessKey: with the flag set during the replay (or when the source does not
    set it: the error is then an admitted one) every nesting depth keeps the invariant *)
Lemma process_key_n_inv fuel : forall red s k,
  (cf_kb_guard cfg = true -> red = true \/ fuel <> 0) ->
  sinv s -> sinv (fst (process_key_n cfg translate fuel red s k)).
Proof.
  induction fuel as [|f IH]; intros red s k Hg H; cbn [process_key_n]; apply process_key_gen_inv; try exact H; intros x Hx;
    apply key_binder_process_inv; try exact Hx.
  - intros f0 X; discriminate X.
  - intros _. destruct (cf_kb_guard cfg) eqn:Eg; [|right; reflexivity]. destruct (Hg eq_refl) as [X | X]; [left; exact X | congruence].
  - intros f0 X. injection X as <-. intros y tk Hy. apply IH; [|exact Hy]. intros Eg. left. exact Eg.
  - intros X; discriminate X.
Qed.

Lemma process_key_inv s k : sinv s -> sinv (fst (process_key cfg translate s k)).
Proof. intros H. unfold process_key. apply process_key_n_inv; [|exact H]. intros _. right. discriminate. Qed.

(** ---- the API layer ---- *)
Lemma on_current_page_inv s i verb :
  (forall s n, sinv s -> sinv (fst (verb s n))) -> sinv s -> sinv (fst (on_current_page cfg s i verb)).
Proof.
  intros Hv H. unfold on_current_page. destruct (negb (has_menu (st_ctx s))); [exact H|].
  destruct (size_of_int (cf_page_size cfg) <=? i)%N; [exact H|].
  destruct (sg_segs (cx_comp (st_ctx s))); [exact H | apply Hv, H].
Qed.

Lemma do_highlight_inv s i : sinv s -> sinv (fst (do_highlight cfg translate s i)).
Proof.
  intros H. unfold do_highlight. pose proof (highlight_inv (st_ctx s) i H) as H1.
  destruct (highlight cfg translate (st_ctx s) i). exact H1.
Qed.

Lemma change_page_inv s b : sinv s -> sinv (fst (change_page cfg translate s b)).
Proof.
  intros H. unfold change_page. destruct (negb (has_menu (st_ctx s))); [exact H|].
  destruct (sg_segs (cx_comp (st_ctx s))) as [|g r] eqn:E; [exact H|].
  apply do_highlight_inv. apply sinv_with, cinv_set_back; [exact H| |same_geo H E]. apply seg_inv_tags, (back_inv _ _ _ H E).
Qed.

Lemma exec_inv s o : sinv s -> op_ok o -> sinv (fst (exec cfg translate s o)).
Proof.
  intros H Ho. destruct o; cbn [exec].
  - pose proof (process_key_inv s (mkKey code mask) H) as H1. destruct (process_key cfg translate s _). exact H1.
  - apply sinv_with, set_input_inv; [exact H | exact Ho].
  - apply sinv_with, set_caret_pos_inv, H.
  - pose proof (select_inv s i H) as H1. destruct (select cfg translate s i). exact H1.
  - pose proof (on_current_page_inv s i (select cfg translate) (fun s n Hs => select_inv s n Hs) H) as H1.
    destruct (on_current_page cfg s i _). exact H1.
  - pose proof (do_highlight_inv s i H) as H1. destruct (do_highlight cfg translate s i). exact H1.
  - pose proof (on_current_page_inv s i (do_highlight cfg translate) (fun s n Hs => do_highlight_inv s n Hs) H) as H1.
    destruct (on_current_page cfg s i _). exact H1.
  - pose proof (delete_candidate_inv s i H) as H1. destruct (delete_candidate cfg s i). exact H1.
  - pose proof (on_current_page_inv s i (delete_candidate cfg) (fun s n Hs => delete_candidate_inv s n Hs) H) as H1.
    destruct (on_current_page cfg s i _). exact H1.
  - pose proof (change_page_inv s backward H) as H1. destruct (change_page cfg translate s backward). exact H1.
  - apply commit_inv, H.
  - apply sinv_with, clear_inv, H.
  - destruct (st_commit s); exact H.
  - exact H.
  - exact H.
  - exact H.
  - exact H.
  - apply sinv_with, set_option_inv, H.
  - exact H.
Qed.

Lemma init_inv : sinv (init_state cfg).
Proof.
  split; [split; [cbn; lia|]; split; [constructor|]; split; [exact IP_nil|]; split; [exact IP_nil|]; split; [exact I|]|].
  - intros _. split; [split; constructor | discriminate].
  - cbn. split; [lia | intros _; lia].
Qed.

(** ---- everything [view_of] reports is well-formed ---- *)
Ltac Zify.zify_post_hook ::= Z.div_mod_to_equations.


(** ---- RimeGetContext's page arithmetic ---- *)
Lemma menu_view_wf c mo :
  cinv c -> fst (menu_view cfg c) = Some mo ->
  wf_menub mo (match sg_segs (cx_comp c) with [] => None | g :: _ => Some (s_sel g) end) = true.
Proof.
  intros H. unfold menu_view. destruct (negb (has_menu c)) eqn:Ehm; [discriminate|].
  destruct (sg_segs (cx_comp c)) as [|g r] eqn:E; [discriminate|].
  destruct (s_menu g) as [m|] eqn:Em; [|discriminate].
  assert (Hne : m <> []).
  { unfold has_menu, sg_back in Ehm. rewrite E in Ehm. cbn in Ehm. rewrite Em in Ehm. destruct m; [discriminate | discriminate]. }
  destruct (sel_small g m (back_inv c g r H E) Em Hne) as (Hi & Hlt & Hb). unfold menu_bounded in Hb.
  rewrite Hi. set (ps := cf_page_size cfg) in *. set (sel := Z.of_N (s_sel g)) in *.
  assert (Hsel0 : (0 <= sel)%Z) by (subst sel; lia).
  rewrite Z.quot_div_nonneg, Z.rem_mod_nonneg by lia.
  assert (Hq : (0 <= sel / ps)%Z) by (apply Z.div_pos; lia).
  assert (Hqle : (ps * (sel / ps) <= sel)%Z) by (apply Z.mul_div_le; lia).
  rewrite (size_of_int_small ps), (size_of_int_small (sel / ps)) by lia.
  unfold create_page, menu_count.
  assert (Hstart : size_wrap (Z.to_N ps * Z.to_N (sel / ps)) = Z.to_N (ps * (sel / ps))).
  { rewrite size_wrap_small; lia. }
  rewrite Hstart. set (start := Z.to_N (ps * (sel / ps))).
  assert (Hend : size_wrap (start + Z.to_N ps) = (start + Z.to_N ps)%N) by (apply size_wrap_small; subst start; lia).
  rewrite Hend.
  assert (Hmod : (sel mod ps = sel - ps * (sel / ps))%Z) by (rewrite Z.mod_eq by lia; reflexivity).
  assert (Hmodb : (0 <= sel mod ps < ps)%Z) by (apply Z.mod_pos_bound; lia).
  destruct (N.of_nat (length m) <? start + Z.to_N ps)%N eqn:E1.
  - apply N.ltb_lt in E1.
    replace (N.of_nat (length m) <=? start)%N with false by (symmetry; apply N.leb_gt; subst start; lia).
    cbn [fst]. intros Hmo. injection Hmo as <-. unfold wf_menub.
    cbn [mo_hl mo_cands mo_page_size mo_page_no pg_cands]. rewrite skipn_length.
    apply andb_true_iff. split; [|apply Z.eqb_eq; subst sel; lia].
    repeat (apply andb_true_iff; split); try apply Z.leb_le; try apply Z.ltb_lt; subst start; lia.
  - apply N.ltb_ge in E1.
    replace (start + Z.to_N ps <=? start)%N with false by (symmetry; apply N.leb_gt; lia).
    cbn [fst]. intros Hmo. injection Hmo as <-. unfold wf_menub.
    cbn [mo_hl mo_cands mo_page_size mo_page_no pg_cands]. rewrite firstn_length, skipn_length.
    apply andb_true_iff. split; [|apply Z.eqb_eq; subst sel; lia].
    repeat (apply andb_true_iff; split); try apply Z.leb_le; try apply Z.ltb_lt; subst start; lia.
Qed.

Lemma menu_view_ok c : cinv c -> snd (menu_view cfg c) = true.
Proof.
  intros H. unfold menu_view. destruct (negb (has_menu c)) eqn:Ehm; [reflexivity|].
  destruct (sg_segs (cx_comp c)) as [|g r] eqn:E; [reflexivity|].
  destruct (s_menu g) as [m|] eqn:Em; [|reflexivity].
  assert (Hne : m <> []).
  { unfold has_menu, sg_back in Ehm. rewrite E in Ehm. cbn in Ehm. rewrite Em in Ehm. destruct m; [discriminate | discriminate]. }
  destruct (sel_small g m (back_inv c g r H E) Em Hne) as (Hi & Hlt & Hb). unfold menu_bounded in Hb.
  rewrite Hi. set (ps := cf_page_size cfg) in *. set (sel := Z.of_N (s_sel g)) in *.
  assert (Hsel0 : (0 <= sel)%Z) by (subst sel; lia).
  rewrite Z.quot_div_nonneg by lia.
  assert (Hq : (0 <= sel / ps)%Z) by (apply Z.div_pos; lia).
  assert (Hqle : (ps * (sel / ps) <= sel)%Z) by (apply Z.mul_div_le; lia).
  rewrite (size_of_int_small ps), (size_of_int_small (sel / ps)) by lia.
  unfold create_page, menu_count.
  assert (Hstart : size_wrap (Z.to_N ps * Z.to_N (sel / ps)) = Z.to_N (ps * (sel / ps))).
  { rewrite size_wrap_small; lia. }
  rewrite Hstart. set (start := Z.to_N (ps * (sel / ps))).
  assert (Hend : size_wrap (start + Z.to_N ps) = (start + Z.to_N ps)%N) by (apply size_wrap_small; subst start; lia).
  rewrite Hend.
  destruct (N.of_nat (length m) <? start + Z.to_N ps)%N.
  - destruct (N.of_nat (length m) <=? start)%N; reflexivity.
  - replace (start + Z.to_N ps <=? start)%N with false by (symmetry; apply N.leb_gt; lia). reflexivity.
Qed.

Lemma view_err_ok s : sinv s -> match snd (view_of cfg s) with Some ErrSubstr | None => True | _ => False end.
Proof.
  intros H. unfold view_of. destruct (ctx_commit_text (st_ctx s)) as [pv ok2].
  pose proof (menu_view_ok (st_ctx s) H) as Hm. destruct (menu_view cfg (st_ctx s)) as [mv ok3]. cbn [snd] in *. subst ok3.
  destruct (is_composing (st_ctx s) && negb (pe_ok (ctx_preedit (st_ctx s)) && ok2)); exact I.
Qed.

Lemma step_inv s o : sinv s -> op_ok o -> sinv (fst (step cfg translate s o)).
Proof.
  intros H Ho. unfold step. destruct (cx_err (st_ctx s)); [exact H|].
  pose proof (exec_inv s o H Ho) as H1. destruct (exec cfg translate s o) as [s1 r]. cbn [fst] in H1.
  pose proof (view_err_ok s1 H1) as Hv. destruct (view_of cfg s1) as [v ve]. cbn [snd] in Hv.
  assert (H2 : sinv (match ve with Some e => st_with_ctx s1 (ctx_fail (st_ctx s1) e) | None => s1 end)).
  { destruct ve as [e|]; [|exact H1]. destruct e; try contradiction. apply (cinv_err (st_ctx s1)); [left; reflexivity | exact H1]. }
  destruct (cx_err (st_ctx (match ve with Some e => st_with_ctx s1 (ctx_fail (st_ctx s1) e) | None => s1 end))); exact H2.
Qed.

Lemma view_wf s : sinv s -> wf_viewb (fst (view_of cfg s)) = true.
Proof.
  intros H. unfold view_of.
  destruct (ctx_commit_text (st_ctx s)) as [pv ok2].
  pose proof (menu_view_wf (st_ctx s)) as Hm. destruct (menu_view cfg (st_ctx s)) as [mv ok3]. cbn [fst] in *.
  unfold wf_viewb. cbn [v_caret v_input v_composing v_preedit v_menu v_sel].
  repeat (apply andb_true_iff; split).
  - apply Nat.leb_le, H.
  - destruct (is_composing (st_ctx s)) eqn:Ec; [reflexivity|]. cbn [orb].
    unfold is_composing in Ec. apply orb_false_iff in Ec as (E1 & E2).
    destruct (cx_input (st_ctx s)); [|discriminate]. cbn [andb].
    destruct mv as [mo|]; [|reflexivity]. exfalso.
    (* a menu needs a segment *)
    unfold sg_empty in E2. destruct (sg_segs (cx_comp (st_ctx s))) eqn:Es; [|discriminate].
    specialize (Hm mo H eq_refl). unfold wf_menub in Hm. rewrite !andb_false_r in Hm. discriminate.
  - destruct (is_composing (st_ctx s)); [|reflexivity]. unfold ctx_preedit. apply comp_preedit_wf.
  - destruct mv as [mo|]; [|reflexivity]. apply (Hm mo H eq_refl).
Qed.

(** ---- all histories ---- *)
Lemma step_wf s o : sinv s -> op_ok o -> wf_obsb (snd (step cfg translate s o)) = true.
Proof.
  intros H Ho. unfold step. destruct (cx_err (st_ctx s)); [reflexivity|].
  pose proof (exec_inv s o H Ho) as H1.
  destruct (exec cfg translate s o) as [s1 r]. cbn [fst] in H1.
  pose proof (view_wf s1 H1) as Hv. destruct (view_of cfg s1) as [v ve]. cbn [fst] in Hv.
  destruct (cx_err (st_ctx (match ve with Some e => st_with_ctx s1 (ctx_fail (st_ctx s1) e) | None => s1 end)));
    [reflexivity | exact Hv].
Qed.

Lemma run_from_wf ops : forall s, sinv s -> Forall op_ok ops -> forallb wf_obsb (snd (run_from cfg translate s ops)) = true.
Proof.
  induction ops as [|o r IH]; intros s H Hops; [reflexivity|]. cbn [run_from].
  inversion Hops as [|? ? Ho Hr]; subst.
  pose proof (step_wf s o H Ho) as Hw. pose proof (step_inv s o H Ho) as Hi.
  destruct (step cfg translate s o) as [s1 ob]. cbn [fst snd] in *.
  specialize (IH s1 Hi Hr). destruct (run_from cfg translate s1 r) as [s2 obs]. cbn [snd forallb] in *.
  now rewrite Hw, IH.
Qed.

Theorem wf_reported_gen ops : Forall op_ok ops -> forallb wf_obsb (snd (run cfg translate ops)) = true.
Proof. apply run_from_wf, init_inv. Qed.

Lemma run_from_inv ops : forall s, sinv s -> Forall op_ok ops -> sinv (fst (run_from cfg translate s ops)).
Proof.
  induction ops as [|o r IH]; intros s H Hops; [exact H|]. cbn [run_from].
  inversion Hops as [|? ? Ho Hr]; subst. pose proof (step_inv s o H Ho) as Hi.
  destruct (step cfg translate s o) as [s1 ob]. cbn [fst] in Hi. specialize (IH s1 Hi Hr).
  destruct (run_from cfg translate s1 r) as [s2 obs]. exact IH.
Qed.

Theorem reachable_inv ops : Forall op_ok ops -> sinv (fst (run cfg translate ops)).
Proof. apply run_from_inv, init_inv. Qed.

(** ---- no observation reports a null dereference or an invalid page range ---- *)
Definition obs_ok (o : obs) : Prop :=
  match o with ObsCrash ErrNullDeref | ObsCrash ErrBadRange => False | _ => True end.

Lemma sinv_err_ok s : sinv s -> err_ok (cx_err (st_ctx s)).
Proof. intros H; apply H. Qed.

Lemma step_obs_ok s o : sinv s -> op_ok o -> obs_ok (snd (step cfg translate s o)).
Proof.
  intros H Ho. pose proof (step_inv s o H Ho) as Hi. pose proof (sinv_err_ok s H) as He.
  unfold step in *. destruct (cx_err (st_ctx s)) as [e|] eqn:Ee.
  - cbn [snd obs_ok]. destruct e; try exact I; exact He.
  - destruct (exec cfg translate s o) as [s1 r]. destruct (view_of cfg s1) as [v ve].
    pose proof (sinv_err_ok _ Hi) as He2.
    destruct (cx_err (st_ctx (match ve with Some e => st_with_ctx s1 (ctx_fail (st_ctx s1) e) | None => s1 end))) as [e|] eqn:E2;
      cbn [fst snd obs_ok] in *; [|exact I].
    rewrite E2 in He2. destruct e; try exact I; exact He2.
Qed.

Lemma run_from_obs_ok ops : forall s, sinv s -> Forall op_ok ops -> Forall obs_ok (snd (run_from cfg translate s ops)).
Proof.
  induction ops as [|o r IH]; intros s H Hops; [constructor|]. cbn [run_from].
  inversion Hops as [|? ? Ho Hr]; subst.
  pose proof (step_obs_ok s o H Ho) as Hw. pose proof (step_inv s o H Ho) as Hi.
  destruct (step cfg translate s o) as [s1 ob]. cbn [fst snd] in *.
  specialize (IH s1 Hi Hr). destruct (run_from cfg translate s1 r) as [s2 obs]. cbn [snd] in *.
  constructor; assumption.
Qed.

Theorem no_null_no_bad_range_gen ops : Forall op_ok ops -> Forall obs_ok (snd (run cfg translate ops)).
Proof. apply run_from_obs_ok, init_inv. Qed.


(** every crash an observation reports is of a kind the invariant admits *)
Definition obs_err_ok (o : obs) : Prop := match o with ObsCrash e => err_ok (Some e) | Obs _ _ => True end.

Lemma step_obs_err_ok s o : sinv s -> op_ok o -> obs_err_ok (snd (step cfg translate s o)).
Proof.
  intros H Ho. pose proof (step_inv s o H Ho) as Hi. pose proof (sinv_err_ok s H) as He.
  unfold step in *. destruct (cx_err (st_ctx s)) as [e|] eqn:Ee.
  - cbn [snd obs_err_ok]. exact He.
  - destruct (exec cfg translate s o) as [s1 r]. destruct (view_of cfg s1) as [v ve].
    pose proof (sinv_err_ok _ Hi) as He2.
    destruct (cx_err (st_ctx (match ve with Some e => st_with_ctx s1 (ctx_fail (st_ctx s1) e) | None => s1 end))) as [e|] eqn:E2;
      cbn [fst snd obs_err_ok] in *; [|exact I]. rewrite E2 in He2. exact He2.
Qed.

Lemma run_from_obs_err_ok ops : forall s, sinv s -> Forall op_ok ops -> Forall obs_err_ok (snd (run_from cfg translate s ops)).
Proof.
  induction ops as [|o r IH]; intros s H Hops; [constructor|]. cbn [run_from].
  inversion Hops as [|? ? Ho Hr]; subst.
  pose proof (step_obs_err_ok s o H Ho) as Hw. pose proof (step_inv s o H Ho) as Hi.
  destruct (step cfg translate s o) as [s1 ob]. cbn [fst snd] in *.
  specialize (IH s1 Hi Hr). destruct (run_from cfg translate s1 r) as [s2 obs]. cbn [snd] in *.
  constructor; assumption.
Qed.

Theorem crash_kinds_gen ops : Forall op_ok ops -> Forall obs_err_ok (snd (run cfg translate ops)).
Proof. apply run_from_obs_err_ok, init_inv. Qed.

(** ---- the UTF-8 clause: with [IP] = ASCII and [MP] = clean candidates the
    reported preedit positions are character boundaries ---- *)
Section Utf8.
Hypothesis IP_ascii : forall l, IP l -> all_ascii l.
Hypothesis MP_clean : forall st m, MP st m -> Forall (fun c => cand_clean c = true) m.

Lemma seg_inv_clean g : seg_inv g -> seg_clean g.
Proof.
  intros (_ & H) cd Hcd. unfold selected_cand, cand_at in Hcd. destruct (s_menu g) as [m|] eqn:Em; [|discriminate].
  destruct (H m eq_refl) as (_ & _ & Hmp). unfold menu_at in Hcd.
  destruct (menu_count m <=? s_sel g)%N; [discriminate|]. apply nth_error_In in Hcd.
  apply (proj1 (Forall_forall _ _) (MP_clean _ m Hmp) cd Hcd).
Qed.

Lemma view_utf8 s : sinv s -> wf_view_utf8b (fst (view_of cfg s)) = true.
Proof.
  intros ((Hc & Hs & Hi & Hci) & _). unfold view_of.
  destruct (ctx_commit_text (st_ctx s)) as [pv ok2]. destruct (menu_view cfg (st_ctx s)) as [mv ok3]. cbn [fst].
  unfold wf_view_utf8b. cbn [v_preedit]. destruct (is_composing (st_ctx s)); [|reflexivity].
  unfold ctx_preedit. apply comp_preedit_utf8.
  - apply IP_ascii, Hci.
  - apply IP_ascii, Hi.
  - apply Forall_forall. intros g Hg. apply seg_inv_clean. apply (proj1 (Forall_forall _ _) Hs g Hg).
  - assert (Hp : comp_prompt (cx_comp (st_ctx s)) = []).
    { unfold comp_prompt, sg_back. destruct (sg_segs (cx_comp (st_ctx s))) as [|g r] eqn:E; [reflexivity|].
      cbn. inversion Hs as [|? ? Hg _]. apply Hg. }
    rewrite Hp. destruct (get_option (st_ctx s) opt_soft_cursor); reflexivity.
Qed.

Lemma step_utf8 s o : sinv s -> op_ok o -> wf_obs_utf8b (snd (step cfg translate s o)) = true.
Proof.
  intros H Ho. unfold step. destruct (cx_err (st_ctx s)); [reflexivity|].
  pose proof (exec_inv s o H Ho) as H1.
  destruct (exec cfg translate s o) as [s1 r]. cbn [fst] in H1.
  pose proof (view_utf8 s1 H1) as Hv. destruct (view_of cfg s1) as [v ve]. cbn [fst] in Hv.
  destruct (cx_err (st_ctx (match ve with Some e => st_with_ctx s1 (ctx_fail (st_ctx s1) e) | None => s1 end)));
    [reflexivity | exact Hv].
Qed.

Lemma run_from_utf8 ops : forall s, sinv s -> Forall op_ok ops ->
  forallb wf_obs_utf8b (snd (run_from cfg translate s ops)) = true.
Proof.
  induction ops as [|o r IH]; intros s H Hops; [reflexivity|]. cbn [run_from].
  inversion Hops as [|? ? Ho Hr]; subst.
  pose proof (step_utf8 s o H Ho) as Hw. pose proof (step_inv s o H Ho) as Hi.
  destruct (step cfg translate s o) as [s1 ob]. cbn [fst snd] in *.
  specialize (IH s1 Hi Hr). destruct (run_from cfg translate s1 r) as [s2 obs]. cbn [snd forallb] in *.
  now rewrite Hw, IH.
Qed.

Theorem wf_reported_utf8_gen ops :
  Forall op_ok ops -> forallb wf_obs_utf8b (snd (run cfg translate ops)) = true.
Proof. apply run_from_utf8, init_inv. Qed.
End Utf8.

End Wf.

(** ---- the two instances ---- *)
Theorem wf_reported (cfg : config) (translate : bytes -> seginfo -> list cand) :
  (1 <= cf_page_size cfg)%Z ->
  (forall i s, (Z.of_nat (length (translate i s)) + cf_page_size cfg < 2147483648)%Z) ->
  cf_del_checked cfg = true ->
  forall ops, forallb wf_obsb (snd (run cfg translate ops)) = true.
Proof.
  intros Hps Hlen Hdel ops.
  eapply wf_reported_gen with (MP := fun _ _ => True) (IP := fun _ => True) (GE := False); eauto; try tauto.
  apply Forall_forall. intros o _. destruct o; exact I.
Qed.

(** in every reachable state the composition's own input is no longer than the raw input *)
Theorem reachable_comp_input_le (cfg : config) (translate : bytes -> seginfo -> list cand) :
  (1 <= cf_page_size cfg)%Z ->
  (forall i s, (Z.of_nat (length (translate i s)) + cf_page_size cfg < 2147483648)%Z) ->
  cf_del_checked cfg = true ->
  forall ops, let c := st_ctx (fst (run cfg translate ops)) in
              length (sg_input (cx_comp c)) <= length (cx_input c) /\ cx_caret c <= length (cx_input c).
Proof.
  intros Hps Hlen Hdel ops.
  assert (H : sinv cfg (fun _ _ => True) (fun _ => True) False (fst (run cfg translate ops))).
  { eapply reachable_inv; eauto; try tauto. apply Forall_forall. intros o _. destruct o; exact I. }
  cbv zeta. destruct H as ((Hc & _) & Hr & _). split; assumption.
Qed.

(** over all histories the modelled core never dereferences a null candidate
    and never builds an invalid page range *)
Theorem no_null_no_bad_range (cfg : config) (translate : bytes -> seginfo -> list cand) :
  (1 <= cf_page_size cfg)%Z ->
  (forall i s, (Z.of_nat (length (translate i s)) + cf_page_size cfg < 2147483648)%Z) ->
  cf_del_checked cfg = true ->
  forall ops, Forall obs_ok (snd (run cfg translate ops)).
Proof.
  intros Hps Hlen Hdel ops.
  eapply no_null_no_bad_range_gen with (MP := fun _ _ => True) (IP := fun _ => True) (GE := False); eauto; try tauto.
  apply Forall_forall. intros o _. destruct o; exact I.
Qed.

(** which kinds of crash a history can report at all: never a null dereference or an invalid page
    range; the commit history's dangling [last] and the key binder's unbounded re-entry only for
    the source shapes without the respective guard *)
Definition crash_kind_ok (cfg : config) (o : obs) : Prop :=
  match o with
  | ObsCrash ErrNullDeref | ObsCrash ErrBadRange => False
  | ObsCrash ErrDangling => cf_hist_guard cfg = false
  | ObsCrash ErrRecursion => cf_kb_guard cfg = false
  | _ => True
  end.

Theorem crash_kinds (cfg : config) (translate : bytes -> seginfo -> list cand) :
  (1 <= cf_page_size cfg)%Z ->
  (forall i s, (Z.of_nat (length (translate i s)) + cf_page_size cfg < 2147483648)%Z) ->
  cf_del_checked cfg = true ->
  forall ops, Forall (crash_kind_ok cfg) (snd (run cfg translate ops)).
Proof.
  intros Hps Hlen Hdel ops.
  assert (H : Forall (obs_err_ok cfg) (snd (run cfg translate ops))).
  { eapply crash_kinds_gen with (MP := fun _ _ => True) (IP := fun _ => True) (GE := False); eauto; try tauto.
    apply Forall_forall. intros o _. destruct o; exact I. }
  eapply Forall_impl; [|exact H]. intros o Ho. destruct o as [e|]; [|exact I]. destruct e; exact Ho.
Qed.

(** with candidates that end at or after the start of their segment: over all
    histories the only undefined operation the modelled core can still reach is
    std::string::substr with pos > size (ErrSubstr) – no null dereference, no
    invalid page range, and CalculateSegmentation always finishes within its
    |input| + 1 rounds (no ErrFuel); the source fact [cf_hist_guard] excludes the
    dangling [last] of CommitHistory::Push (see [commit_history_dangling] in InvProofs.v
    for the source shape without the reset) *)
Definition obs_only_substr (o : obs) : Prop :=
  match o with ObsCrash ErrSubstr | Obs _ _ => True | ObsCrash _ => False end.

Theorem only_substr_can_fail (cfg : config) (translate : bytes -> seginfo -> list cand) :
  (1 <= cf_page_size cfg)%Z ->
  (forall i s, (Z.of_nat (length (translate i s)) + cf_page_size cfg < 2147483648)%Z) ->
  cf_del_checked cfg = true ->
  cf_hist_guard cfg = true ->
  cf_kb_guard cfg = true ->
  (forall i s c, In c (translate i s) -> si_start s <= c_end c) ->
  forall ops, Forall obs_only_substr (snd (run cfg translate ops)).
Proof.
  intros Hps Hlen Hdel Hhg Hkg Hce ops.
  set (MPg := fun (st : nat) (m : menu) => forall c, In c m -> st <= c_end c).
  assert (Hops : Forall (op_ok (fun _ => True)) ops) by (apply Forall_forall; intros o _; destruct o; exact I).
  assert (Hrun : forall l s, sinv cfg MPg (fun _ => True) True s ->
                 Forall (op_ok (fun _ => True)) l -> Forall obs_only_substr (snd (run_from cfg translate s l))).
  { induction l as [|o r IH]; intros s H Hl; [constructor|]. cbn [run_from]. inversion Hl as [|? ? Ho Hr]; subst.
    assert (Hi : sinv cfg MPg (fun _ => True) True (fst (step cfg translate s o))).
    { eapply step_inv; eauto; try tauto. intros i sg _ c Hc. apply (Hce i sg c Hc). }
    assert (Hob : obs_only_substr (snd (step cfg translate s o))).
    { assert (He : forall x, sinv cfg MPg (fun _ => True) True x -> forall e, cx_err (st_ctx x) = Some e -> e = ErrSubstr).
      { intros x ((_ & _ & _ & _ & Hok & Hg) & _) e Hx. destruct (Hg I) as (_ & Hnf). rewrite Hx in Hok, Hnf.
        destruct e; cbn in Hok; try contradiction; try reflexivity; congruence. }
      unfold step in *. destruct (cx_err (st_ctx s)) as [e|] eqn:Ee.
      - cbn [snd]. rewrite (He s H e Ee). exact I.
      - destruct (exec cfg translate s o) as [s1 r1]. destruct (view_of cfg s1) as [v ve].
        destruct (cx_err (st_ctx (match ve with Some e => st_with_ctx s1 (ctx_fail (st_ctx s1) e) | None => s1 end))) as [e|] eqn:E2;
          cbn [fst snd] in *; [|exact I]. rewrite (He _ Hi e E2). exact I. }
    destruct (step cfg translate s o) as [s1 ob]. cbn [fst snd] in *. specialize (IH s1 Hi Hr).
    destruct (run_from cfg translate s1 r) as [s2 obs]. constructor; assumption. }
  apply Hrun; [|exact Hops]. eapply init_inv; eauto; tauto.
Qed.

Definition op_ascii (o : op) : Prop := match o with OpSetInput v => all_ascii v | _ => True end.

Lemma ascii_key z : (32 <= z < 128)%Z -> all_ascii [byte_of_N (Z.to_N z)].
Proof.
  intros H. constructor; [|constructor]. unfold is_ascii, byte_of_N, N_of_byte.
  destruct (Byte.of_N (Z.to_N z)) as [b|] eqn:E; [|reflexivity].
  apply Byte.to_of_N in E. rewrite E. apply N.ltb_lt. lia.
Qed.

Theorem wf_reported_utf8 (cfg : config) (translate : bytes -> seginfo -> list cand) :
  (1 <= cf_page_size cfg)%Z ->
  (forall i s, (Z.of_nat (length (translate i s)) + cf_page_size cfg < 2147483648)%Z) ->
  cf_del_checked cfg = true ->
  (forall i s, all_ascii i -> Forall (fun c => cand_clean c = true) (translate i s)) ->
  forall ops, Forall op_ascii ops -> forallb wf_obs_utf8b (snd (run cfg translate ops)) = true.
Proof.
  intros Hps Hlen Hdel Hclean ops Hops.
  eapply wf_reported_utf8_gen with (MP := fun _ => Forall (fun c => cand_clean c = true)) (IP := all_ascii) (GE := False); eauto; try tauto.
  all: try (intros; apply Hclean; assumption).
  - constructor.
  - intros n l; apply all_ascii_firstn.
  - intros n l; apply all_ascii_skipn.
  - intros a b Ha Hb. apply Forall_app; split; assumption.
  - apply ascii_key.
Qed.
