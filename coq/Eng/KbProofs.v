(** Eng/KbProofs.v – the key binder's re-entry into ProcessKey.

    [kb_replay_depth]: when the source sets redirecting_ around the replay loop
    ([cf_kb_guard], Gen/EngFacts.v: key_binder_redirect_guard), the replayed keys are processed
    by a chain in which the key binder declines everything, whatever the binding table:
    nesting depth 1 gives the same result as any larger fuel – no unbounded recursion for
    self-sending, cyclic or chained bindings.  [WfProofs.crash_kinds] adds that no history ever
    reports ErrRecursion then.  [kb_unguarded_recursion]: without the flag the self-sending
    binding of the synthetic table exhausts every nesting depth the model allows.
    The synthetic key-binder schemas meet the hypotheses of the C02 / C01 theorems. *)
From Coq Require Import List Arith NArith ZArith Bool Lia.
From Coq.Strings Require Import Byte.
From RimeV Require Import Base.Bytes Eng.Keys Eng.Cand Eng.Menu Eng.Segm Eng.Ctx Eng.Engine Eng.Trans Eng.TransProofs
     Eng.Procs Eng.Api Eng.Oracle Eng.Spec Eng.WfProofs Eng.CommitProofs Eng.InvProofs Eng.TotalFull Eng.TotalProofs
     Eng.PunctProofs.
Import ListNotations.

Section Kb.
Variable cfg : config.
Variable translate : bytes -> seginfo -> list cand.

(** while redirecting_ is set the key binder declines every key *)
Lemma key_binder_redirecting R s k : key_binder_process cfg translate R true s k = (s, PNoop).
Proof. reflexivity. Qed.

Lemma run_processors_ext l kb1 kb2 k :
  (forall s, kb1 s k = kb2 s k) ->
  forall s, run_processors (map (proc_of cfg translate kb1) l) s k = run_processors (map (proc_of cfg translate kb2) l) s k.
Proof.
  intros E. induction l as [|i r IH]; intros s; [reflexivity|]. cbn [map run_processors].
  assert (Ei : proc_of cfg translate kb1 i s k = proc_of cfg translate kb2 i s k) by (destruct i; cbn [proc_of]; auto).
  rewrite Ei. destruct (proc_of cfg translate kb2 i s k) as [s1 ret]. destruct ret; auto.
Qed.

Lemma process_key_gen_ext kb1 kb2 k :
  (forall s, kb1 s k = kb2 s k) -> forall s, process_key_gen cfg translate kb1 s k = process_key_gen cfg translate kb2 s k.
Proof. intros E s. unfold process_key_gen, processors. rewrite (run_processors_ext _ kb1 kb2 k E). reflexivity. Qed.

(** ProcessKey as the replay sees it: the key binder is out of the way *)
Definition process_key_replayed (s : state) (k : key) : state * bool :=
  process_key_gen cfg translate (fun x _ => (x, PNoop)) s k.

Lemma process_key_n_redirecting fuel s k : process_key_n cfg translate fuel true s k = process_key_replayed s k.
Proof. destruct fuel; cbn [process_key_n]; apply process_key_gen_ext; intros x; apply key_binder_redirecting. Qed.

Lemma fold_replay_ext (f1 f2 : state -> key -> state * bool) keys :
  (forall x tk, f1 x tk = f2 x tk) ->
  forall s, fold_left (fun x tk => fst (f1 x tk)) keys s = fold_left (fun x tk => fst (f2 x tk)) keys s.
Proof. intros E. induction keys as [|tk r IH]; intros s; [reflexivity|]. cbn [fold_left]. rewrite E. apply IH. Qed.

Lemma key_binder_ext f1 f2 red s k :
  (forall x tk, f1 x tk = f2 x tk) ->
  key_binder_process cfg translate (Some f1) red s k = key_binder_process cfg translate (Some f2) red s k.
Proof.
  intros E. unfold key_binder_process. destruct (red || _); [reflexivity|].
  destruct (reinterpret_paging_key cfg translate s k) as [s1 re]. destruct re; [reflexivity|].
  destruct (find _ (kb_vector cfg k)) as [b|]; [|reflexivity]. destruct (kb_act b) as [keys | o | o | o | sc]; try reflexivity.
  destruct keys as [|tk keys]; [reflexivity|]. rewrite (fold_replay_ext f1 f2 (tk :: keys) E). reflexivity.
Qed.

(** a key event from the client with the flag in the source: ONE level of nesting is all there is,
    for every binding table *)
Theorem kb_replay_depth :
  cf_kb_guard cfg = true ->
  forall fuel s k,
    process_key_n cfg translate (S fuel) false s k =
    process_key_gen cfg translate (key_binder_process cfg translate (Some process_key_replayed) false) s k.
Proof.
  intros Hg fuel s k. cbn [process_key_n]. apply process_key_gen_ext. intros x. apply key_binder_ext.
  intros y tk. rewrite Hg. apply process_key_n_redirecting.
Qed.

Corollary kb_fuel_irrelevant :
  cf_kb_guard cfg = true -> forall fuel s k, process_key_n cfg translate (S fuel) false s k = process_key_n cfg translate 1 false s k.
Proof. intros Hg fuel s k. rewrite (kb_replay_depth Hg fuel), (kb_replay_depth Hg 0). reflexivity. Qed.

Corollary process_key_depth1 :
  cf_kb_guard cfg = true -> forall s k, process_key cfg translate s k = process_key_n cfg translate 1 false s k.
Proof. intros Hg s k. unfold process_key, kb_fuel. apply (kb_fuel_irrelevant Hg). Qed.

End Kb.

(** ---- the synthetic key-binder schemas ---- *)
Lemma synth_kb_translate_length fluid dlog i s : length (synth_translate (synth_kb_cfg fluid dlog) i s) <= 44.
Proof.
  unfold synth_translate.
  pose proof (all_translate_length2 (synth_kb_cfg fluid dlog) oracle_translate i s eq_refl) as H.
  pose proof (punct_translate_length (synth_kb_cfg fluid dlog) i s) as H1.
  assert (E : punct_width (synth_kb_cfg fluid dlog) = 4) by (destruct fluid; reflexivity). rewrite E in H1.
  pose proof (oracle_translate_length i s). lia.
Qed.

Lemma synth_kb_total_hyps fluid dlog : total_hyps (synth_kb_cfg fluid dlog) (synth_translate (synth_kb_cfg fluid dlog)).
Proof.
  split; [cbn; lia|]. split; [|reflexivity]. intros i s. pose proof (synth_kb_translate_length fluid dlog i s).
  change (cf_page_size (synth_kb_cfg fluid dlog)) with 5%Z. lia.
Qed.

Theorem wf_reported_synth_kb fluid dlog ops :
  forallb wf_obsb (snd (run (synth_kb_cfg fluid dlog) (synth_translate (synth_kb_cfg fluid dlog)) ops)) = true.
Proof. destruct (synth_kb_total_hyps fluid dlog) as (H1 & H2 & H3). apply wf_reported; assumption. Qed.

Theorem crash_kinds_synth_kb fluid dlog ops :
  Forall (crash_kind_ok (synth_kb_cfg fluid dlog))
         (snd (run (synth_kb_cfg fluid dlog) (synth_translate (synth_kb_cfg fluid dlog)) ops)).
Proof. destruct (synth_kb_total_hyps fluid dlog) as (H1 & H2 & H3). apply crash_kinds; assumption. Qed.

(** the key binder over the plain chain: C01's full totality applies, for the whole binding table
    (self-sending, cyclic and chained bindings included) *)
Lemma synth_kbplain_chain fluid dlog : plain_chain (synth_kbplain_cfg fluid dlog).
Proof.
  split; [reflexivity|]. split; [reflexivity|]. split; [reflexivity|].
  cbn. intros [H | [H | [H | [H | [H | []]]]]]; discriminate H.
Qed.

Theorem core_total_synth_kbplain fluid dlog ops :
  forallb not_crash (snd (run (synth_kbplain_cfg fluid dlog) oracle_translate ops)) = true.
Proof.
  apply core_total; [|apply synth_kbplain_chain | exact oracle_cands_fit].
  split; [cbn; lia|]. split; [|reflexivity]. intros i s. pose proof (oracle_translate_length i s). cbn. lia.
Qed.

(** ---- without the flag ---- the self-sending binding Control+s -> Control+s *)
Definition kb_selfsend_ops : list op := [OpKey 115 4].    (* Control+s *)
Theorem kb_unguarded_recursion :
  let cfg := synth_kb_cfg_gen true true true false true in
  snd (run cfg (synth_translate cfg) kb_selfsend_ops) = [ObsCrash ErrRecursion].
Proof. vm_compute. reflexivity. Qed.

(** with the flag the self-sending, the cyclic and the chained bindings are all harmless *)
Definition kb_example_ops : list op :=
  [OpKey 115 4; OpKey 97 4; OpKey 101 4; OpKey 99 4; OpKey 107 4; OpKey 106 4; OpKey 44 0; OpKey 46 0; OpKey 97 0;
   OpKey 61 0; OpKey 45 0; OpKey 52 5; OpKey 113 4; OpGetCommit].
Example kb_guarded_ok :
  let cfg := synth_kb_cfg_gen true true true true true in
  forallb not_crash (snd (run cfg (synth_translate cfg) kb_example_ops)) = true /\
  existsb (fun o => match o with Obs (RBool true) v => match v_input v with [] => false | _ => true end | _ => false end)
          (snd (run cfg (synth_translate cfg) kb_example_ops)) = true.
Proof. cbv zeta. split; vm_compute; reflexivity. Qed.
