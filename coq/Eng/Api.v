(** Eng/Api.v – the session functions of the C API as one step function.
    Model only.  Ported from src/rime_api_impl.h (RimeProcessKey,
    RimeGetContext incl. the page arithmetic, RimeGetCommit, RimeGetStatus,
    RimeSetInput/GetInput, RimeSetCaretPos/GetCaretPos, Rime{Select,Highlight,
    Delete}Candidate(OnCurrentPage), RimeChangePage, RimeCommitComposition,
    RimeClearComposition, RimeSetOption) and src/rime/service.cc (Session).

    [step s op = (s', obs)]: perform [op], then read everything a client can
    read ([view_of]: get_context + get_status + get_input + get_caret_pos and
    the pending commit text).  When a C++ operation that is undefined or
    throws was reached ([cx_err]), the observation is [ObsCrash] from then on. *)
From Coq Require Import List Arith NArith ZArith Bool.
From Coq.Strings Require Import Byte.
From RimeV Require Import Base.Bytes Eng.Keys Eng.Cand Eng.Menu Eng.Segm Eng.Ctx Eng.Engine Eng.Procs.
Import ListNotations.

Inductive op :=
| OpKey (code mask : Z)
| OpSetInput (s : bytes)
| OpSetCaret (n : N)
| OpSelect (i : N)
| OpSelectPage (i : N)
| OpHighlight (i : N)
| OpHighlightPage (i : N)
| OpDelete (i : N)
| OpDeletePage (i : N)
| OpChangePage (backward : bool)
| OpCommit
| OpClear
| OpGetCommit
| OpGetContext
| OpGetInput
| OpGetCaret
| OpGetStatus
| OpSetOption (name : bytes) (v : bool)
| OpTick (ms : N).   (* the harness advances the virtual steady clock (read by ascii_composer only) *)

(** RimeMenu as filled by RimeGetContext *)
Record menu_obs := mkMenuObs {
  mo_page_size : Z;
  mo_page_no : Z;
  mo_last : bool;
  mo_hl : Z;
  mo_cands : list cand;
  mo_select_keys : bytes
}.

(** everything readable after a call *)
Record view := mkView {
  v_commit : bytes;              (* Session::commit_text_ (not yet fetched) *)
  v_input : bytes;               (* get_input *)
  v_caret : nat;                 (* get_caret_pos *)
  v_composing : bool;            (* status.is_composing *)
  v_preedit : option preedit;    (* context.composition, None = not filled *)
  v_preview : bytes;             (* context.commit_text_preview *)
  v_has_menu : bool;             (* Context::HasMenu (internal) *)
  v_sel : option N;              (* selected_index of the last segment (internal) *)
  v_menu : option menu_obs;      (* context.menu, None = not filled *)
  v_flags : list bool;           (* ascii_mode, full_shape, simplification, traditional, ascii_punct *)
  v_back_end : option nat;       (* end of the last segment (internal) *)
  v_confirmed : bytes            (* commit text of the segments before the last one (internal) *)
}.

Inductive ret := RNone | RBool (b : bool) | RCommit (t : option bytes).
Inductive obs := ObsCrash (e : err) | Obs (r : ret) (v : view).

Section Api.
Variable cfg : config.
Variable translate : bytes -> seginfo -> list cand.

Definition init_state : state :=
  mkSt (mkCtx [] 0 (mkSegm [] []) [(opt_auto_commit, negb (cf_fluid cfg))] None None false) [] [] [] [] 0%Z
       (mkAc false false false 0%N) 0%N.

(** RimeGetContext's menu part *)
Definition menu_view (c : context) : option menu_obs * bool :=
  if negb (has_menu c) then (None, true)
  else match sg_segs (cx_comp c) with
       | [] => (None, true)
       | g :: _ =>
         match s_menu g with
         | None => (None, true)
         | Some m =>
           let page_size := cf_page_size cfg in
           let selected_index := int_of_size (s_sel g) in
           let page_no := Z.quot selected_index page_size in
           let (pg, ok) := create_page m (size_of_int page_size) (size_of_int page_no) in
           match pg with
           | None => (None, ok)
           | Some p => (Some (mkMenuObs page_size page_no (pg_last p) (Z.rem selected_index page_size)
                                         (pg_cands p) (cf_select_keys cfg)), ok)
           end
         end
       end.

Definition view_of (s : state) : view * option err :=
  let c := st_ctx s in
  let composing := is_composing c in
  let pe := ctx_preedit c in
  let (preview, ok2) := ctx_commit_text c in
  let (mv, ok3) := menu_view c in
  (mkView (st_commit s) (cx_input c) (cx_caret c) composing
          (if composing then Some pe else None)
          (if composing then preview else [])
          (has_menu c)
          (match sg_segs (cx_comp c) with [] => None | g :: _ => Some (s_sel g) end)
          mv
          [get_option c opt_ascii_mode; get_option c opt_full_shape; get_option c opt_simplification;
           get_option c opt_traditional; get_option c opt_ascii_punct]
          (match sg_segs (cx_comp c) with [] => None | g :: _ => Some (s_end g) end)
          (comp_confirmed_text (cx_comp c)),
   if composing && negb (pe_ok pe && ok2) then Some ErrSubstr
   else if negb ok3 then Some ErrBadRange else None).

(** do_with_candidate_on_current_page *)
Definition on_current_page (s : state) (index : N) (verb : state -> N -> state * bool) : state * bool :=
  let c := st_ctx s in
  if negb (has_menu c) then (s, false)
  else
    let page_size := size_of_int (cf_page_size cfg) in
    if (page_size <=? index)%N then (s, false)
    else match sg_segs (cx_comp c) with
         | [] => (s, false)
         | g :: _ => let page_start := (s_sel g / page_size * page_size)%N in
                     verb s (size_wrap (page_start + index))
         end.

Definition do_highlight (s : state) (i : N) : state * bool :=
  let (c, b) := highlight cfg translate (st_ctx s) i in (st_with_ctx s c, b).

Definition change_page (s : state) (backward : bool) : state * bool :=
  let c := st_ctx s in
  if negb (has_menu c) then (s, false)
  else
    let page_size := size_of_int (cf_page_size cfg) in
    match sg_segs (cx_comp c) with
    | [] => (s, false)
    | g :: _ =>
      let current_index := s_sel g in
      let index := if backward
                   then (if (current_index <=? page_size)%N then 0%N else (current_index - page_size)%N)
                   else size_wrap (current_index + page_size) in
      let c1 := ctx_with_comp c (sg_set_back (cx_comp c) (seg_with_tags g (tag_insert TPaging (s_tags g)))) in
      do_highlight (st_with_ctx s c1) index
    end.

Definition exec (s : state) (o : op) : state * ret :=
  match o with
  | OpKey code mask => let (s1, b) := process_key cfg translate s (mkKey code mask) in (s1, RBool b)
  | OpSetInput t => (st_with_ctx s (set_input cfg translate (st_ctx s) t), RBool true)
  | OpSetCaret n =>
    let len := length (cx_input (st_ctx s)) in
    let pos := if (N.of_nat len <? n)%N then len else N.to_nat n in
    (st_with_ctx s (set_caret_pos cfg translate (st_ctx s) pos), RNone)
  | OpSelect i => let (s1, b) := select cfg translate s i in (s1, RBool b)
  | OpSelectPage i => let (s1, b) := on_current_page s i (select cfg translate) in (s1, RBool b)
  | OpHighlight i => let (s1, b) := do_highlight s i in (s1, RBool b)
  | OpHighlightPage i => let (s1, b) := on_current_page s i do_highlight in (s1, RBool b)
  | OpDelete i => let (s1, b) := delete_candidate cfg s i in (s1, RBool b)
  | OpDeletePage i => let (s1, b) := on_current_page s i (delete_candidate cfg) in (s1, RBool b)
  | OpChangePage backward => let (s1, b) := change_page s backward in (s1, RBool b)
  | OpCommit =>
    let s1 := fst (commit cfg translate s) in
    (s1, RBool (negb (match st_commit s1 with [] => true | _ => false end)))
  | OpClear => (st_with_ctx s (clear cfg translate (st_ctx s)), RNone)
  | OpGetCommit =>
    match st_commit s with
    | [] => (s, RCommit None)
    | t => (mkSt (st_ctx s) (st_nav_input s) (st_spans s) [] (st_odd s) (st_kb_last s) (st_ac s) (st_clock s), RCommit (Some t))
    end
  | OpGetContext | OpGetInput | OpGetCaret | OpGetStatus => (s, RNone)
  | OpSetOption name v => (st_with_ctx s (set_option cfg translate (st_ctx s) name v), RNone)
  | OpTick ms =>
    (mkSt (st_ctx s) (st_nav_input s) (st_spans s) (st_commit s) (st_odd s) (st_kb_last s) (st_ac s) (st_clock s + ms)%N, RNone)
  end.

Definition step (s : state) (o : op) : state * obs :=
  match cx_err (st_ctx s) with
  | Some e => (s, ObsCrash e)
  | None =>
    let (s1, r) := exec s o in
    let (v, ve) := view_of s1 in
    let s2 := match ve with Some e => st_with_ctx s1 (ctx_fail (st_ctx s1) e) | None => s1 end in
    match cx_err (st_ctx s2) with
    | Some e => (s2, ObsCrash e)
    | None => (s2, Obs r v)
    end
  end.

Fixpoint run_from (s : state) (ops : list op) : state * list obs :=
  match ops with
  | [] => (s, [])
  | o :: r => let (s1, ob) := step s o in
              let (s2, obs) := run_from s1 r in (s2, ob :: obs)
  end.

Definition run (ops : list op) : state * list obs := run_from init_state ops.

(** the state after a history, as a fold (what the theorems quantify over) *)
Definition state_after (ops : list op) : state := fold_left (fun s o => fst (step s o)) ops init_state.

End Api.
