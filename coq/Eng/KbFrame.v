(** Eng/KbFrame.v - the processors other than the key binder never write KeyBinder::last_key_ ([st_kb_last]). *)
From Coq Require Import List Arith NArith ZArith Bool Lia.
From Coq.Strings Require Import Byte.
From RimeV Require Import Base.Bytes Eng.Keys Eng.Cand Eng.Menu Eng.Segm Eng.Ctx Eng.Engine Eng.Procs Eng.Api.
Import ListNotations.

Definition kbv (v : Z) (s : state) : Prop := st_kb_last s = v.

Section KbFrame.
Variable cfg : config.
Variable translate : bytes -> seginfo -> list cand.
Variable v : Z.

Lemma kbv_with s c : kbv v s -> kbv v (st_with_ctx s c).
Proof. intros H; exact H. Qed.
Lemma kbv_on_ctx s f : kbv v s -> kbv v (on_ctx s f).
Proof. intros H; exact H. Qed.
Lemma kbv_on_ctx_b s f : kbv v s -> kbv v (fst (on_ctx_b s f)).
Proof. intros H. unfold on_ctx_b. destruct (f (st_ctx s)). exact H. Qed.
Lemma kbv_sink s t : kbv v s -> kbv v (sink s t).
Proof. intros H; exact H. Qed.

Lemma commit_kb s : kbv v s -> kbv v (fst (commit cfg translate s)).
Proof.
  intros H. unfold commit. destruct (negb (is_composing (st_ctx s))); [exact H|].
  destruct (hist_push_comp _ _ _ _) as [[h okh] live].
  match goal with |- context [ctx_commit_text ?c] => destruct (ctx_commit_text c) as [t ok] end. exact H.
Qed.
Lemma on_select_kb s : kbv v s -> kbv v (on_select cfg translate s).
Proof.
  intros H. unfold on_select.
  match goal with |- kbv v (mkSt _ _ _ _ _ (st_kb_last ?x) _ _) => assert (Hx : kbv v x); [|exact Hx] end.
  destruct (sg_segs (cx_comp (st_ctx s))); [exact H|].
  destruct (_ =? _).
  - match goal with |- context [if ?b then _ else _] => destruct b end; [apply commit_kb|]; exact H.
  - destruct (_ <=? _); exact H.
Qed.
Lemma select_kb s i : kbv v s -> kbv v (fst (select cfg translate s i)).
Proof.
  intros H. unfold select. destruct (sg_segs (cx_comp (st_ctx s))); [exact H|]. destruct (cand_at _ _); [|exact H].
  apply on_select_kb. exact H.
Qed.
Lemma confirm_kb s : kbv v s -> kbv v (fst (confirm_current_selection cfg translate s)).
Proof.
  intros H. unfold confirm_current_selection. destruct (sg_segs (cx_comp (st_ctx s))); [exact H|].
  destruct (selected_cand _); cbn [fst]; [apply on_select_kb; exact H|]. destruct (_ =? _); cbn [fst]; [exact H | apply on_select_kb; exact H].
Qed.
Lemma delete_candidate_kb s i : kbv v s -> kbv v (fst (delete_candidate cfg s i)).
Proof.
  intros H. unfold delete_candidate. destruct (sg_segs (cx_comp (st_ctx s))); [exact H|].
  destruct (cf_del_checked cfg); [destruct (cand_at _ _); exact H | exact H].
Qed.
Lemma delete_current_selection_kb s : kbv v s -> kbv v (fst (delete_current_selection cfg s)).
Proof. intros H. unfold delete_current_selection. destruct (sg_segs _); [exact H | apply delete_candidate_kb, H]. Qed.

Lemma kbp_process_kb {A} (run : state -> A -> state * bool) km fb s k :
  (forall s a, kbv v s -> kbv v (fst (run s a))) -> kbv v s -> kbv v (fst (kbp_process run km fb s k)).
Proof.
  intros Hr H. unfold kbp_process.
  assert (Ha : forall s k, kbv v s -> kbv v (fst (kbp_accept run km s k))).
  { intros s0 k0 H0. unfold kbp_accept. destruct (keymap_find km k0); [apply Hr; exact H0 | exact H0]. }
  pose proof (Ha s k H) as H1. destruct (kbp_accept run km s k) as [s1 ok1]. cbn [fst] in H1.
  destruct ok1; [exact H1|]. destruct (k_ctrl k || k_alt k); [exact H1|].
  destruct (k_shift k && fb); [|exact H1].
  pose proof (Ha s1 (mkKey (k_code k) (shift_as_control (k_mod k))) H1) as H2.
  destruct (kbp_accept run km s1 _) as [s2 ok2]. cbn [fst] in H2. destruct ok2; [exact H2|].
  pose proof (Ha s2 (mkKey (k_code k) (clear_shift (k_mod k))) H2) as H3.
  destruct (kbp_accept run km s2 _) as [s3 ok3]. cbn [fst] in H3. destruct ok3; exact H3.
Qed.

Lemma run_sel_action_kb s a : kbv v s -> kbv v (fst (run_sel_action cfg s a)).
Proof. intros H. destruct a; cbn [run_sel_action]; try exact H; apply kbv_on_ctx_b, H. Qed.
Lemma select_candidate_at_kb s i : kbv v s -> kbv v (fst (select_candidate_at cfg translate s i)).
Proof.
  intros H. unfold select_candidate_at. destruct (sg_segs (cx_comp (st_ctx s))); [exact H|].
  destruct (cf_page_size cfg <=? i)%Z; [exact H | apply select_kb, H].
Qed.
Lemma selector_process_kb s k : kbv v s -> kbv v (fst (selector_process cfg translate s k)).
Proof.
  intros H. unfold selector_process. destruct (k_release k || k_alt k || k_super k); [exact H|].
  destruct (sg_segs (cx_comp (st_ctx s))) as [|g r]; [exact H|].
  destruct ((match s_menu g with None => true | Some _ => false end) || has_tag TRaw (s_tags g)); [exact H|].
  pose proof (kbp_process_kb (run_sel_action cfg) (sel_keymap (st_ctx s)) false s k (fun s a => run_sel_action_kb s a) H) as H1.
  destruct (kbp_process (run_sel_action cfg) (sel_keymap (st_ctx s)) false s k) as [s1 r1]. cbn [fst] in H1.
  destruct (negb (presult_is_noop r1)); [exact H1|].
  destruct (0 <=? select_key_index cfg k)%Z; [apply select_candidate_at_kb, H1 | exact H1].
Qed.
Lemma speller_process_kb s k : kbv v s -> kbv v (fst (speller_process cfg translate s k)).
Proof.
  intros H. unfold speller_process.
  repeat match goal with |- kbv v (fst (if ?b then _ else _)) => destruct b; [exact H|] end. exact H.
Qed.

Lemma begin_move_kb s : kbv v s -> kbv v (begin_move s).
Proof. intros H. unfold begin_move. destruct (_ || _); exact H. Qed.
Lemma jump_left_kb s p : kbv v s -> kbv v (fst (jump_left cfg translate s p)).
Proof. intros H. unfold jump_left. match goal with |- kbv v (fst (if ?b then _ else _)) => destruct b end; exact H. Qed.
Lemma jump_right_kb s p : kbv v s -> kbv v (fst (jump_right cfg translate s p)).
Proof. intros H. unfold jump_right. match goal with |- kbv v (fst (if ?b then _ else _)) => destruct b end; exact H. Qed.
Lemma move_left_kb s : kbv v s -> kbv v (fst (move_left cfg translate s)).
Proof. intros H. unfold move_left. destruct (_ =? _); exact H. Qed.
Lemma move_right_kb s : kbv v s -> kbv v (fst (move_right cfg translate s)).
Proof. intros H. unfold move_right. destruct (_ <=? _); exact H. Qed.
Lemma go_home_kb s : kbv v s -> kbv v (fst (go_home cfg translate s)).
Proof.
  intros H. unfold go_home.
  match goal with |- kbv v (fst (if ?b then _ else if ?d then _ else _)) => destruct b; [|destruct d] end; exact H.
Qed.
Lemma go_to_end_kb s : kbv v s -> kbv v (fst (go_to_end cfg translate s)).
Proof. intros H. unfold go_to_end. match goal with |- kbv v (fst (if ?b then _ else _)) => destruct b end; exact H. Qed.
Lemma or_else_kb r f : kbv v (fst r) -> (forall s, kbv v s -> kbv v (fst (f s))) -> kbv v (fst (or_else r f)).
Proof. intros H Hf. unfold or_else. destruct r as [s ok]. destruct ok; [exact H | apply Hf, H]. Qed.
Lemma run_nav_action_kb s a : kbv v s -> kbv v (fst (run_nav_action cfg translate s a)).
Proof.
  intros H. pose proof (begin_move_kb s H) as H1.
  destruct a; cbn [run_nav_action fst]; try exact H.
  - apply or_else_kb; [|intros; apply go_to_end_kb; assumption].
    destruct ((1 <? spans_count (st_spans (begin_move s))) && _); [apply jump_left_kb | apply move_left_kb]; exact H1.
  - apply or_else_kb; [apply move_left_kb, H1 | intros; apply go_to_end_kb; assumption].
  - apply or_else_kb; [apply move_right_kb, H1 | intros; apply go_home_kb; assumption].
  - apply or_else_kb; [apply jump_left_kb, H1 | intros; apply go_to_end_kb; assumption].
  - apply or_else_kb; [apply jump_right_kb, H1 | intros; apply go_to_end_kb; assumption].
  - apply go_home_kb, H1.
  - apply go_to_end_kb, H1.
Qed.
Lemma navigator_process_kb s k : kbv v s -> kbv v (fst (navigator_process cfg translate s k)).
Proof.
  intros H. unfold navigator_process. destruct (k_release k); [exact H|].
  destruct (negb (is_composing (st_ctx s))); [exact H|].
  apply kbp_process_kb; [intros; apply run_nav_action_kb; assumption | exact H].
Qed.

Lemma ed_revert_last_edit_kb s : kbv v s -> kbv v (ed_revert_last_edit cfg translate s).
Proof.
  intros H. unfold ed_revert_last_edit. apply or_else_kb; [apply kbv_on_ctx_b, H|].
  intros s1 H1. pose proof (kbv_on_ctx_b s1 (fun c => pop_input cfg translate c 1) H1) as H2.
  destruct (on_ctx_b s1 (fun c => pop_input cfg translate c 1)) as [s2 ok]. cbn [fst] in H2.
  destruct ok; [|exact H2]. apply kbv_on_ctx_b, H2.
Qed.
Lemma run_editor_action_kb s a : kbv v s -> kbv v (fst (run_editor_action cfg translate s a)).
Proof.
  intros H. destruct a; cbn [run_editor_action fst]; try exact H.
  - apply or_else_kb; [apply confirm_kb, H | intros; apply commit_kb; assumption].
  - apply or_else_kb; [apply kbv_on_ctx_b, H | intros; apply confirm_kb; assumption].
  - destruct (ctx_selected_cand (st_ctx s)) as [cd|]; [|exact H]. destruct (c_comment cd); exact H.
  - apply commit_kb. exact H.
  - destruct (comp_script_text (cx_comp (st_ctx s))) as [t ok]. exact H.
  - pose proof (confirm_kb s H) as H1.
    destruct (confirm_current_selection cfg translate s) as [s1 ok]. cbn [fst] in H1.
    destruct (negb ok || negb (has_menu (st_ctx s1))); cbn [fst]; [apply commit_kb|]; exact H1.
  - apply ed_revert_last_edit_kb, H.
  - apply or_else_kb; [apply or_else_kb|].
    + apply kbv_on_ctx_b, H.
    + intros; apply kbv_on_ctx_b; assumption.
    + intros; apply kbv_on_ctx_b; assumption.
  - apply ed_revert_last_edit_kb, H.
  - apply delete_current_selection_kb, H.
  - pose proof (kbv_on_ctx_b s (clear_previous_segment cfg translate) H) as H1.
    destruct (on_ctx_b s (clear_previous_segment cfg translate)) as [s1 ok]. cbn [fst] in H1.
    destruct ok; cbn [fst]; exact H1.
Qed.
Lemma editor_process_kb s k : kbv v s -> kbv v (fst (editor_process cfg translate s k)).
Proof.
  intros H. unfold editor_process. destruct (k_release k); [exact H|].
  assert (H1 : kbv v (fst (if is_composing (st_ctx s)
                          then kbp_process (run_editor_action cfg translate) (editor_keymap cfg) true s k
                          else (s, PNoop)))).
  { destruct (is_composing (st_ctx s)); [|exact H].
    apply kbp_process_kb; [intros; apply run_editor_action_kb; assumption | exact H]. }
  destruct (if is_composing (st_ctx s) then _ else _) as [s1 r]. cbn [fst] in H1.
  destruct (negb (presult_is_noop r)); [exact H1|].
  match goal with |- kbv v (fst (if ?b then _ else _)) => destruct b end; [|exact H1].
  destruct (editor_char_handler cfg); cbn [fst]; try exact H1. apply commit_kb, H1.
Qed.
Lemma shape_process_kb s k : kbv v s -> kbv v (fst (shape_process s k)).
Proof.
  intros H. unfold shape_process.
  repeat match goal with |- kbv v (fst (if ?b then _ else _)) => destruct b; [exact H|] end. exact H.
Qed.
End KbFrame.
