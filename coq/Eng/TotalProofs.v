(** Eng/TotalProofs.v – C01 (modelled session core): which undefined / throwing
    C++ operations a history of API calls can reach.

    The model marks four kinds ([Ctx.err]): [ErrNullDeref] (member access
    through a null an<Candidate>), [ErrBadRange] (std::copy with first > last
    in Menu::CreatePage), [ErrSubstr] (std::string::substr with pos > size,
    which throws) and [ErrFuel] (a loop of the model – CalculateSegmentation,
    fuel |input| + 1 – did not finish; never a C++ behaviour).

    Proved here, for ALL histories of API operations with arbitrary arguments
    under the hypotheses of C02_wf_reported: no observation is a null
    dereference or an invalid page range ([core_total_partial], from the
    invariant of WfProofs.v); and for the C05 key alphabet no observation is a
    crash of any kind ([core_total_edit], a corollary of edit_refines_buffer).
    NOT proved: that [ErrSubstr] and [ErrFuel] are unreachable for arbitrary
    histories ([core_total_full] below is the full statement).  It needs an
    invariant this development does not carry: segments contiguous from 0 with
    start <= end <= |composition input|, and every selected candidate ending
    inside its segment – the latter is broken transiently by partial
    selections that are reopened, and is re-established only by the Compose
    that ends the same call.  The correspondence runs (model [CRASH] lines,
    sanitizer aborts) have found no such case. *)
From Coq Require Import List Arith NArith ZArith Bool Lia.
From Coq.Strings Require Import Byte.
From RimeV Require Import Base.Bytes Eng.Keys Eng.Cand Eng.Menu Eng.Segm Eng.Ctx Eng.Engine Eng.Procs
     Eng.Api Eng.Oracle Eng.Spec Eng.EditProofs Eng.WfProofs Eng.CommitProofs.
Import ListNotations.

Definition total_hyps (cfg : config) (translate : bytes -> seginfo -> list cand) : Prop :=
  (1 <= cf_page_size cfg)%Z /\
  (forall i s, (Z.of_nat (length (translate i s)) + cf_page_size cfg < 2147483648)%Z) /\
  cf_del_checked cfg = true.

(** the full statement (not proved): no history reaches any undefined operation,
    and CalculateSegmentation always finishes within |input| + 1 rounds *)
Definition core_total_full : Prop :=
  forall cfg translate, total_hyps cfg translate ->
  forall ops, forallb not_crash (snd (run cfg translate ops)) = true.

(** what is proved for all histories *)
Definition no_null_no_bad_range_obs (o : obs) : Prop :=
  match o with ObsCrash ErrNullDeref | ObsCrash ErrBadRange => False | _ => True end.

Theorem core_total_partial :
  forall cfg translate, total_hyps cfg translate ->
  forall ops, Forall no_null_no_bad_range_obs (snd (run cfg translate ops)).
Proof. intros cfg translate (H1 & H2 & H3) ops. exact (no_null_no_bad_range cfg translate H1 H2 H3 ops). Qed.

(** the C05 key alphabet: no crash at all, any translator, both editors *)
Theorem core_total_edit :
  forall fluid dlog translate keys,
    Forall (fun k => ekey_ok (synth_cfg fluid dlog) k = true) keys ->
    forallb not_crash (snd (run (synth_cfg fluid dlog) translate (map op_of_ekey keys))) = true.
Proof.
  intros fluid dlog translate keys Hk.
  destruct (edit_refines_buffer fluid dlog translate keys Hk) as (_ & _ & _ & Hs).
  set (obs := snd (run (synth_cfg fluid dlog) translate (map op_of_ekey keys))) in *.
  assert (Hall : Forall (fun o => edit_summary o <> None) obs).
  { apply Forall_forall. intros o Ho. apply (in_map edit_summary) in Ho. rewrite Hs in Ho.
    apply in_map_iff in Ho as (x & Hx & _). congruence. }
  apply forallb_forall. intros o Ho. apply (proj1 (Forall_forall _ _) Hall) in Ho.
  destruct o; [exfalso; apply Ho; reflexivity | reflexivity].
Qed.

(** with [core_total_full] the hypothesis of C03's exactly_once disappears *)
Theorem exactly_once_if_total :
  core_total_full ->
  forall cfg translate, total_hyps cfg translate ->
  forall ops,
    concat (map read_of (snd (run cfg translate ops))) ++ st_commit (fst (run cfg translate ops))
    = concat (deliveries cfg translate (init_state cfg) ops).
Proof. intros Hf cfg translate Hh ops. apply exactly_once, Hf, Hh. Qed.
