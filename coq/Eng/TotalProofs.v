(** Eng/TotalProofs.v – C01 (modelled session core): which undefined / throwing
    C++ operations a history of API calls can reach.

    The model marks four kinds ([Ctx.err]): [ErrNullDeref] (member access
    through a null an<Candidate>), [ErrBadRange] (std::copy with first > last
    in Menu::CreatePage), [ErrSubstr] (std::string::substr with pos > size,
    which throws) and [ErrFuel] (a loop of the model – CalculateSegmentation,
    fuel |input| + 1 – did not finish; never a C++ behaviour).

    Proved here, for ALL histories of API operations with arbitrary arguments
    under the hypotheses of C02_wf_reported: no observation is a null
    dereference or an invalid page range ([core_total_partial], from the
    invariant of WfProofs.v); and for the C05 key alphabet no observation is a
    crash of any kind ([core_total_edit], a corollary of edit_refines_buffer).
    With candidates ending at or after their segment's start, also [ErrFuel] is
    unreachable ([core_total_except_substr]).
    PROVED in Eng/TotalFull.v and restated at the end of this file ([core_total]):
    with the candidate-shape hypothesis [cands_fit] (every candidate ends inside
    the segment it was made for and covers at least one byte of it – true of the
    oracle translator, [oracle_cands_fit]) NO observation of ANY history is a
    crash of any kind.  Without that hypothesis the statement is false
    ([core_total_full_refuted]: a translator whose candidate ends beyond the
    input makes GetPreedit call substr with pos > size).
    History of the gap (closed by TotalFull.v): [ErrSubstr] was open for arbitrary histories
    ([core_total_full] below is the statement without the shape hypothesis).  The geometric invariant
    (segments contiguous from 0, start <= end <= |composition input|) is carried
    and rules out the substr calls of TranslateSegments and GetCommitText; what
    is missing is that every selected candidate of a non-last segment ends inside
    the composition's input (the running [end] of GetPreedit / GetScriptText).
    That needs: open segments hold only candidates that fit, closed segments a
    fitting selected candidate, and "the last segment is open or empty at every
    call boundary"; Segment::Reopen (stale menu until the Compose that ends the
    call) and raw segments extended by the fallback segmentor (stale [length])
    break it inside a call.  The correspondence runs (model [CRASH] lines,
    sanitizer aborts) have found no such case. *)
From Coq Require Import List Arith NArith ZArith Bool Lia.
From Coq.Strings Require Import Byte.
From RimeV Require Import Base.Bytes Eng.Keys Eng.Cand Eng.Menu Eng.Segm Eng.Ctx Eng.Engine Eng.Procs
     Eng.Trans Eng.TransProofs Eng.Api Eng.Oracle Eng.Spec Eng.EditProofs Eng.WfProofs Eng.CommitProofs Eng.InvProofs Eng.TotalFull.
Import ListNotations.

Definition total_hyps (cfg : config) (translate : bytes -> seginfo -> list cand) : Prop :=
  (1 <= cf_page_size cfg)%Z /\
  (forall i s, (Z.of_nat (length (translate i s)) + cf_page_size cfg < 2147483648)%Z) /\
  cf_del_checked cfg = true.

(** the full statement (not proved): no history reaches any undefined operation,
    and CalculateSegmentation always finishes within |input| + 1 rounds *)
Definition core_total_full : Prop :=
  forall cfg translate, total_hyps cfg translate ->
  forall ops, forallb not_crash (snd (run cfg translate ops)) = true.

(** what is proved for all histories *)
Definition no_null_no_bad_range_obs (o : obs) : Prop :=
  match o with ObsCrash ErrNullDeref | ObsCrash ErrBadRange => False | _ => True end.

Theorem core_total_partial :
  forall cfg translate, total_hyps cfg translate ->
  forall ops, Forall no_null_no_bad_range_obs (snd (run cfg translate ops)).
Proof. intros cfg translate (H1 & H2 & H3) ops. exact (no_null_no_bad_range cfg translate H1 H2 H3 ops). Qed.

(** with candidates that end at or after the start of their segment (true of
    every translator: a candidate covers a non-negative stretch of its segment's
    input): for ALL histories the only undefined operation still reachable in
    the model is std::string::substr with pos > size.  In particular
    CalculateSegmentation finishes within |input| + 1 rounds in every reachable
    state (no [ErrFuel]) – from the geometric invariant of WfProofs.v (segments
    contiguous from 0, start <= end <= |composition input|) and [calc_loop_ok]. *)
Theorem core_total_except_substr :
  forall cfg translate, total_hyps cfg translate -> cf_hist_guard cfg = true -> cf_kb_guard cfg = true ->
  (forall i s c, In c (translate i s) -> si_start s <= c_end c) ->
  forall ops, Forall obs_only_substr (snd (run cfg translate ops)).
Proof. intros cfg translate (H1 & H2 & H3) Hg Hk Hce ops. exact (only_substr_can_fail cfg translate H1 H2 H3 Hg Hk Hce ops). Qed.

(** the C05 key alphabet: no crash at all, any translator, both editors *)
Theorem core_total_edit :
  forall fluid dlog translate keys,
    Forall (fun k => ekey_ok (synth_cfg fluid dlog) k = true) keys ->
    forallb not_crash (snd (run (synth_cfg fluid dlog) translate (map op_of_ekey keys))) = true.
Proof.
  intros fluid dlog translate keys Hk.
  destruct (edit_refines_buffer fluid dlog translate keys Hk) as (_ & _ & _ & Hs).
  set (obs := snd (run (synth_cfg fluid dlog) translate (map op_of_ekey keys))) in *.
  assert (Hall : Forall (fun o => edit_summary o <> None) obs).
  { apply Forall_forall. intros o Ho. apply (in_map edit_summary) in Ho. rewrite Hs in Ho.
    apply in_map_iff in Ho as (x & Hx & _). congruence. }
  apply forallb_forall. intros o Ho. apply (proj1 (Forall_forall _ _) Hall) in Ho.
  destruct o; [exfalso; apply Ho; reflexivity | reflexivity].
Qed.

(** with [core_total_full] the hypothesis of C03's exactly_once disappears *)
Theorem exactly_once_if_total :
  core_total_full ->
  forall cfg translate, total_hyps cfg translate ->
  forall ops,
    concat (map read_of (snd (run cfg translate ops))) ++ st_commit (fst (run cfg translate ops))
    = concat (deliveries cfg translate (init_state cfg) ops).
Proof. intros Hf cfg translate Hh ops. apply exactly_once, Hf, Hh. Qed.

(** the synthetic schemas of the correspondence checks meet the hypotheses *)
Lemma oracle_translate_end input seg c : In c (oracle_translate input seg) -> si_start seg <= c_end c.
Proof.
  intros H0. apply InvProofs.oracle_translate_incl in H0. revert H0.
  unfold oracle_translate_full. destruct input as [|c0 r]; [intros []|]. destruct (Byte.eqb c0 x78); [intros []|].
  intros H. apply in_flat_map in H as (L & _ & H). apply in_map_iff in H as (j & <- & _). cbn. lia.
Qed.

Theorem core_total_except_substr_synth :
  forall fluid dlog ops, Forall obs_only_substr (snd (run (synth_cfg fluid dlog) oracle_translate ops)).
Proof.
  intros fluid dlog. apply core_total_except_substr.
  - split; [cbn; lia|]. split; [|reflexivity]. intros i s. pose proof (InvProofs.oracle_translate_length i s). cbn. lia.
  - reflexivity.
  - reflexivity.
  - intros i s c. apply oracle_translate_end.
Qed.

(** ---- the full theorem (proof: Eng/TotalFull.v) ----
    for EVERY history of API operations with arbitrary arguments, under the
    hypotheses of C02_wf_reported plus the candidate-shape hypothesis
    [cands_fit]: no observation is an [ObsCrash] of any kind (no substr with
    pos > size, no null dereference, no invalid page range, and
    CalculateSegmentation within its |input| + 1 rounds) *)
Theorem core_total :
  forall cfg translate, total_hyps cfg translate -> plain_chain cfg -> cands_fit translate ->
  forall ops, forallb not_crash (snd (run cfg translate ops)) = true.
Proof. intros cfg translate (H1 & H2 & H3) Hc Hf ops. exact (TotalFull.core_total cfg translate H1 H2 H3 Hc Hf ops). Qed.

(** synth_express / synth_fluid are plain chains (the CommitHistory fact comes from the source) *)
Lemma synth_plain_chain fluid dlog : plain_chain (synth_cfg fluid dlog).
Proof. split; [reflexivity|]. split; [reflexivity|]. split; [reflexivity|]. cbn. intros [H | [H | [H | [H | []]]]]; discriminate H. Qed.
(** their menus are the oracle translator's lists *)
Lemma synth_translate_plain fluid dlog i s : synth_translate (synth_cfg fluid dlog) i s = oracle_translate i s.
Proof. apply all_translate_main_only. reflexivity. Qed.

(** the oracle translator of the synthetic schemas meets the shape hypothesis *)
Lemma oracle_cands_fit : cands_fit oracle_translate.
Proof.
  intros input seg c H0. apply InvProofs.oracle_translate_incl in H0. revert H0.
  unfold oracle_translate_full. destruct input as [|c0 r] eqn:Ei; [intros []|]. rewrite <- Ei. 
  assert (Hn : 1 <= length input) by (rewrite Ei; cbn; lia).
  destruct (Byte.eqb c0 x78); [intros []|].
  intros H. apply in_flat_map in H as (L & HL & H). apply in_map_iff in H as (j & <- & _). cbn [c_end oracle_cand].
  assert (1 <= L <= length input); [|lia].
  destruct (Byte.eqb c0 x75 || Byte.eqb c0 x76).
  - destruct HL as [<- | []]. lia.
  - apply in_app_or in HL as [[<- | []] | HL]; [lia|].
    apply in_app_or in HL as [HL | HL]; [destruct (2 <=? length input) eqn:E2; [apply Nat.leb_le in E2; destruct HL as [<- | []]; lia | destruct HL]|].
    apply in_app_or in HL as [HL | HL]; [destruct (3 <=? length input) eqn:E3; [apply Nat.leb_le in E3; destruct HL as [<- | []]; lia | destruct HL]|].
    destruct (4 <=? length input) eqn:E4; [apply Nat.leb_le in E4; destruct HL as [<- | []]; lia | destruct HL].
Qed.

Theorem core_total_synth :
  forall fluid dlog ops, forallb not_crash (snd (run (synth_cfg fluid dlog) oracle_translate ops)) = true.
Proof.
  intros fluid dlog. apply core_total; [|apply synth_plain_chain | exact oracle_cands_fit].
  split; [cbn; lia|]. split; [|reflexivity]. intros i s. pose proof (InvProofs.oracle_translate_length i s). cbn. lia.
Qed.

(** C03's exactly-once without the no-crash hypothesis *)
Theorem exactly_once_total :
  forall cfg translate, total_hyps cfg translate -> plain_chain cfg -> cands_fit translate ->
  forall ops,
    concat (map read_of (snd (run cfg translate ops))) ++ st_commit (fst (run cfg translate ops))
    = concat (deliveries cfg translate (init_state cfg) ops).
Proof. intros cfg translate Hh Hc Hf ops. apply exactly_once, core_total; assumption. Qed.

(** every observation of every history is a regular one (the state is never poisoned) *)
Lemma run_from_snoc cfg translate o l : forall s,
  fst (run_from cfg translate s (l ++ [o])) = fst (step cfg translate (fst (run_from cfg translate s l)) o) /\
  snd (run_from cfg translate s (l ++ [o])) = snd (run_from cfg translate s l) ++ [snd (step cfg translate (fst (run_from cfg translate s l)) o)].
Proof.
  induction l as [|x l IH]; intros s; cbn [app run_from].
  - cbn [fst snd app]. destruct (step cfg translate s o) as [s1 ob]. cbn. split; reflexivity.
  - destruct (step cfg translate s x) as [s1 ob]. specialize (IH s1).
    destruct (run_from cfg translate s1 (l ++ [o])) as [s2 obs]. destruct (run_from cfg translate s1 l) as [s3 obs3]. cbn [fst snd] in *.
    destruct IH as (I1 & I2). split; [exact I1 | rewrite I2; reflexivity].
Qed.

Lemma reachable_not_crash cfg translate :
  total_hyps cfg translate -> plain_chain cfg -> cands_fit translate ->
  forall ops o, not_crash (snd (step cfg translate (fst (run cfg translate ops)) o)) = true.
Proof.
  intros Hh Hc Hf ops o.
  pose proof (core_total cfg translate Hh Hc Hf (ops ++ [o])) as H. unfold run in *.
  destruct (run_from_snoc cfg translate o ops (init_state cfg)) as (_ & E2). rewrite E2, forallb_app in H. apply andb_prop in H as (_ & H).
  cbn in H. rewrite andb_true_r in H. exact H.
Qed.

(** C03's read theorems in every reachable state, without the no-crash hypothesis *)
Theorem read_takes_all_total :
  forall cfg translate, total_hyps cfg translate -> plain_chain cfg -> cands_fit translate ->
  forall ops, let s := fst (run cfg translate ops) in
    read_of (snd (step cfg translate s OpGetCommit)) = st_commit s /\
    st_commit (fst (step cfg translate s OpGetCommit)) = [] /\
    (exists v, snd (step cfg translate s OpGetCommit)
               = Obs (RCommit (match st_commit s with [] => None | t => Some t end)) v).
Proof.
  intros cfg translate Hh Hc Hf ops. cbv zeta. apply get_commit_step, reachable_not_crash; assumption.
Qed.

Theorem second_read_empty_total :
  forall cfg translate, total_hyps cfg translate -> plain_chain cfg -> cands_fit translate ->
  forall ops, let s := fst (run cfg translate ops) in
    let r1 := step cfg translate s OpGetCommit in
    let r2 := step cfg translate (fst r1) OpGetCommit in
    read_of (snd r2) = [] /\ exists v, snd r2 = Obs (RCommit None) v.
Proof.
  intros cfg translate Hh Hc Hf ops. cbv zeta.
  apply second_read_empty; [apply reachable_not_crash; assumption|].
  pose proof (reachable_not_crash cfg translate Hh Hc Hf (ops ++ [OpGetCommit]) OpGetCommit) as H.
  unfold run in *. destruct (run_from_snoc cfg translate OpGetCommit ops (init_state cfg)) as (E & _).
  rewrite E in H. exact H.
Qed.

(** the shape hypothesis is needed: [core_total_full] (no hypothesis on where
    candidates end) is false – a translator whose single candidate ends 10
    bytes after its segment's start: type "a", select it (fluid editor: the
    segment is confirmed and a new empty one opened); GetPreedit then continues
    from end = 10 and calls substr(10, ...) on a 1-byte string. *)
Definition long_translate (i : bytes) (s : seginfo) : list cand :=
  match i with [] => [] | _ => [mkCand (si_start s) (si_start s + 10) [x41] [] [] []] end.

Theorem core_total_full_refuted : ~ core_total_full.
Proof.
  intros H. specialize (H (synth_cfg true true) long_translate).
  assert (Hh : total_hyps (synth_cfg true true) long_translate).
  { split; [cbn; lia|]. split; [|reflexivity]. intros i s. destruct i; cbn; lia. }
  specialize (H Hh [OpKey 97 0; OpSelect 0]). vm_compute in H. discriminate H.
Qed.
