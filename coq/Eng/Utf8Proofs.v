(** Eng/Utf8Proofs.v – C02, the UTF-8 clause: the positions GetPreedit reports
    (sel_start, sel_end, cursor) are character boundaries of the preedit text,
    provided the raw input is ASCII, the selected candidates' texts/preedits
    start at character boundaries ([cand_clean]) and so does the prompt.

    [char_boundary t p] := p <= |t| and the byte at p (if any) is not a UTF-8
    continuation byte.  All reported positions are junctions between pieces
    that were appended whole; a junction is a boundary as soon as every piece
    starts clean. *)
From Coq Require Import List Arith NArith ZArith Bool Lia.
From Coq.Strings Require Import Byte.
From RimeV Require Import Base.Bytes Base.ListX Eng.Keys Eng.Cand Eng.Menu Eng.Segm Eng.Ctx Eng.Engine Eng.Procs
     Eng.Api Eng.Spec Eng.WfView.
Import ListNotations.

Definition cand_clean (c : cand) : bool :=
  starts_clean (c_text c) && starts_clean (c_preedit c) &&
  match find_byte byte_tab (c_preedit c) with
  | Some p => starts_clean (skipn (S p) (c_preedit c))
  | None => true
  end.

Definition all_ascii (l : bytes) : Prop := Forall (fun b => is_ascii b = true) l.

Lemma ascii_not_cont b : is_ascii b = true -> is_cont_byte b = false.
Proof.
  unfold is_ascii, is_cont_byte. intros H. apply N.ltb_lt in H.
  replace (128 <=? N_of_byte b)%N with false by (symmetry; apply N.leb_gt; lia). reflexivity.
Qed.

Lemma ascii_clean l : all_ascii l -> starts_clean l = true.
Proof. intros H. destruct H as [|b r Hb _]; [reflexivity|]. cbn. now rewrite (ascii_not_cont b Hb). Qed.

Lemma all_ascii_firstn n l : all_ascii l -> all_ascii (firstn n l).
Proof. intros H. revert n. induction H as [|b r Hb Hr IH]; intros [|n]; cbn; constructor; auto. apply IH. Qed.
Lemma all_ascii_skipn n l : all_ascii l -> all_ascii (skipn n l).
Proof.
  intros H. revert n. induction H as [|b r Hb Hr IH]; intros [|n]; cbn [skipn]; try (constructor; assumption); auto.
Qed.

Lemma substr_se_ascii s pos en : all_ascii s -> all_ascii (fst (substr_se s pos en)).
Proof.
  intros H. unfold substr_se. destruct (length s <? pos); [constructor|].
  destruct (pos <=? en); cbn [fst]; [apply all_ascii_firstn|]; apply all_ascii_skipn, H.
Qed.

Lemma starts_clean_firstn n l : starts_clean l = true -> starts_clean (firstn n l) = true.
Proof. destruct n, l; cbn; auto. Qed.

(** ---- boundaries survive appending whole pieces ---- *)
Definition cb (t : bytes) (p : nat) : Prop := char_boundary t p = true.

Lemma cb_end t : cb t (length t).
Proof. unfold cb, char_boundary. rewrite Nat.leb_refl, skipn_all. reflexivity. Qed.

Lemma cb_app t u p : cb t p -> starts_clean u = true -> cb (t ++ u) p.
Proof.
  unfold cb, char_boundary. intros H Hu. apply andb_prop in H as (H1 & H2). apply Nat.leb_le in H1.
  apply andb_true_intro. split; [apply Nat.leb_le; rewrite app_length; lia|].
  rewrite skipn_app. destruct (skipn p t) as [|x r] eqn:E.
  - assert (length t <= p) by (pose proof (skipn_length p t) as L; rewrite E in L; cbn in L; lia).
    replace (p - length t) with 0 by lia. exact Hu.
  - exact H2.
Qed.

Lemma cb_le t p : cb t p -> p <= length t.
Proof. unfold cb, char_boundary. intros H. apply andb_prop in H as (H1 & _). now apply Nat.leb_le. Qed.

(** inserting a non-empty clean piece [pr] at a boundary [c] *)
Lemma cb_insert t pr c p :
  cb t c -> cb t p -> starts_clean pr = true -> pr <> [] ->
  cb (firstn c t ++ pr ++ skipn c t) (if c <? p then p + length pr else p).
Proof.
  intros Hc Hp Hpr Hne. pose proof (cb_le _ _ Hc) as Lc. pose proof (cb_le _ _ Hp) as Lp.
  unfold cb, char_boundary in *. apply andb_prop in Hp as (_ & Hp2). apply andb_prop in Hc as (_ & Hc2).
  assert (Hlen : length (firstn c t ++ pr ++ skipn c t) = length t + length pr).
  { rewrite !app_length, firstn_length, skipn_length. lia. }
  assert (Hf : length (firstn c t) = c) by (rewrite firstn_length; lia).
  destruct (c <? p) eqn:E.
  - apply Nat.ltb_lt in E. apply andb_true_intro. split; [apply Nat.leb_le; lia|].
    rewrite skipn_app, Hf. rewrite (skipn_all2 (firstn c t)) by lia. cbn [app].
    replace (p + length pr - c) with (length pr + (p - c)) by lia.
    rewrite skipn_app. rewrite (skipn_all2 pr) by lia. cbn [app].
    replace (length pr + (p - c) - length pr) with (p - c) by lia.
    rewrite skipn_skipn. replace (c + (p - c)) with p by lia. exact Hp2.
  - apply Nat.ltb_ge in E. apply andb_true_intro. split; [apply Nat.leb_le; lia|].
    rewrite skipn_app, Hf. destruct (Nat.eq_dec p c) as [-> | Hneq].
    + rewrite (skipn_all2 (firstn c t)) by lia. rewrite Nat.sub_diag. cbn [app skipn].
      destruct pr; [congruence|]. exact Hpr.
    + assert (p < c) by lia.
      assert (Hs : skipn p (firstn c t) <> []).
      { intros En. pose proof (skipn_length p (firstn c t)) as L. rewrite En, Hf in L. cbn in L. lia. }
      destruct (skipn p (firstn c t)) as [|x r] eqn:Es; [congruence|].
      (* the head of skipn p (firstn c t) is the head of skipn p t *)
      assert (Hhd : exists r', skipn p t = x :: r').
      { assert (Ht : skipn p t = skipn p (firstn c t ++ skipn c t)) by now rewrite firstn_skipn.
        rewrite Ht, skipn_app, Es. eexists. reflexivity. }
      destruct Hhd as (r' & Hr'). rewrite Hr' in Hp2. cbn in *. exact Hp2.
Qed.

(** ---- the loop of GetPreedit ---- *)
Definition pacc_clean (a : pacc) : Prop :=
  cb (pa_text a) (pa_sel_start a) /\
  match pa_sel_end a with Some e => cb (pa_text a) e | None => True end /\
  match pa_caret a with Some p => cb (pa_text a) p | None => True end.

Definition seg_clean (g : segment) : Prop :=
  forall c, selected_cand g = Some c -> cand_clean c = true.

Lemma find_byte_lt' b l p : find_byte b l = Some p -> p < length l.
Proof. apply find_byte_lt. Qed.

Ltac cbs := repeat first [ apply cb_end | assumption | apply cb_app; [|assumption] ].

Lemma preedit_step_clean ci fi caret is_last a g :
  all_ascii ci -> seg_clean g -> pacc_clean a -> pacc_clean (preedit_step ci fi caret is_last a g).
Proof.
  intros Hci Hg. destruct a as [t cp ss se en ok]. unfold pacc_clean.
  cbn [pa_text pa_caret pa_sel_start pa_sel_end]. intros (Hss & Hse & Hcp).
  unfold preedit_step. cbn [pa_text pa_caret pa_sel_start pa_sel_end pa_end pa_ok].
  pose proof (ascii_clean _ (substr_se_ascii ci en (s_end g) Hci)) as Hsub.
  destruct (substr_se ci en (s_end g)) as [sub okk]. cbn [fst] in Hsub.
  assert (Hcand : forall cd, selected_cand g = Some cd ->
                  starts_clean (c_text cd) = true /\ starts_clean (c_preedit cd) = true /\
                  forall p, find_byte byte_tab (c_preedit cd) = Some p ->
                            starts_clean (firstn p (c_preedit cd)) = true /\
                            starts_clean (skipn (S p) (c_preedit cd)) = true /\ p < length (c_preedit cd)).
  { intros cd Hcd. specialize (Hg cd Hcd). unfold cand_clean in Hg.
    apply andb_prop in Hg as (Hg12 & Hg3). apply andb_prop in Hg12 as (Hg1 & Hg2).
    split; [exact Hg1|]. split; [exact Hg2|]. intros p Hp. rewrite Hp in Hg3.
    split; [apply starts_clean_firstn; exact Hg2|]. split; [exact Hg3 | apply (find_byte_lt _ _ _ Hp)]. }
  destruct (selected_cand g) as [cd|] eqn:Ecd.
  - destruct (Hcand cd eq_refl) as (Ht & Hp & Htab). clear Hcand.
    destruct (caret =? en); destruct is_last; cbn [negb pa_text pa_caret pa_sel_start pa_sel_end pa_end pa_ok].
    all: try (destruct se; destruct cp; repeat split; cbs; fail).
    all: destruct (c_preedit cd) as [|x r] eqn:Epre;
      [ cbn [pa_text pa_caret pa_sel_start pa_sel_end]; destruct cp; repeat split; cbs
      | destruct (find_byte byte_tab (x :: r)) as [p0|] eqn:Ef;
        [ destruct (Htab p0 eq_refl) as (Hf1 & Hf2 & Hlt);
          assert (Hl : length t + p0 = length (t ++ firstn p0 (x :: r)))
            by (rewrite app_length, firstn_length; lia);
          destruct ((caret =? c_end cd) && (c_end cd =? length fi));
          cbn [pa_text pa_caret pa_sel_start pa_sel_end]; rewrite ?Hl; destruct cp; repeat split; cbs
        | cbn [pa_text pa_caret pa_sel_start pa_sel_end]; destruct cp; repeat split; cbs ] ].
  - clear Hcand.
    destruct (caret =? en); destruct is_last; cbn [negb pa_text pa_caret pa_sel_start pa_sel_end pa_end pa_ok];
      try destruct (has_tag TPhony (s_tags g));
      cbn [pa_text pa_caret pa_sel_start pa_sel_end]; destruct se; destruct cp; repeat split; cbs.
Qed.

Lemma preedit_loop_clean ci fi caret segs a :
  all_ascii ci -> Forall seg_clean segs -> pacc_clean a -> pacc_clean (preedit_loop ci fi caret segs a).
Proof.
  intros Hci Hs. revert a. induction Hs as [|g r Hg Hr IH]; intros a H; [exact H|].
  cbn [preedit_loop]. apply IH, preedit_step_clean; assumption.
Qed.

(** ---- Composition::GetPreedit ---- *)
Lemma preedit_finish t cpos ss e pr ok :
  cb t ss -> cb t e -> cb t cpos -> starts_clean pr = true ->
  wf_preedit_utf8b
    (match pr with
     | [] => mkPreedit t cpos ss e ok
     | _ :: _ => mkPreedit (firstn cpos t ++ pr ++ skipn cpos t) cpos
                           (if cpos <? ss then ss + length pr else ss)
                           (if cpos <? e then e + length pr else e) ok
     end) = true.
Proof.
  intros C1 C2 C3 Hpr. destruct pr as [|x r] eqn:Ep.
  - unfold wf_preedit_utf8b. cbn [pe_text pe_sel_start pe_sel_end pe_caret]. unfold cb in *. now rewrite C1, C2, C3.
  - unfold wf_preedit_utf8b. cbn [pe_text pe_sel_start pe_sel_end pe_caret].
    pose proof (cb_insert t (x :: r) cpos ss C3 C1 Hpr ltac:(discriminate)) as I1.
    pose proof (cb_insert t (x :: r) cpos e C3 C2 Hpr ltac:(discriminate)) as I2.
    pose proof (cb_insert t (x :: r) cpos cpos C3 C3 Hpr ltac:(discriminate)) as I3.
    rewrite Nat.ltb_irrefl in I3. unfold cb in *. now rewrite I1, I2, I3.
Qed.

Lemma comp_preedit_utf8 sg fi caret cs :
  all_ascii (sg_input sg) -> all_ascii fi -> Forall seg_clean (sg_segs sg) ->
  starts_clean (cs ++ comp_prompt sg) = true ->
  wf_preedit_utf8b (comp_preedit sg fi caret cs) = true.
Proof.
  intros Hci Hfi Hs Hpr. unfold comp_preedit. cbv zeta.
  assert (H0 : pacc_clean (mkPacc [] None 0 (Some 0) 0 true)) by (unfold pacc_clean; cbn; repeat split; apply (cb_end [])).
  assert (Hs' : Forall seg_clean (segs_fwd sg)) by (unfold segs_fwd; apply Forall_rev; exact Hs).
  pose proof (preedit_loop_clean (sg_input sg) fi caret (segs_fwd sg) _ Hci Hs' H0) as H.
  pose proof (preedit_loop_ok (sg_input sg) fi caret (segs_fwd sg) (mkPacc [] None 0 (Some 0) 0 true)
                              ltac:(unfold pacc_ok; cbn; lia)) as Hok.
  destruct (preedit_loop (sg_input sg) fi caret (segs_fwd sg) _) as [t cp ss se en ok].
  unfold pacc_clean in H. unfold pacc_ok in Hok. cbn [pa_text pa_caret pa_sel_start pa_sel_end] in *.
  destruct H as (Hss & Hse & Hcp). destruct Hok as (Hse2 & _). destruct se as [e|]; [|contradiction].
  pose proof (ascii_clean _ (all_ascii_skipn en _ Hci)) as Hr1.
  pose proof (ascii_clean _ (all_ascii_skipn en _ Hfi)) as Hr2.
  pose proof (ascii_clean _ (all_ascii_skipn (length (sg_input sg)) _ Hfi)) as Hr3.
  repeat match goal with
         | |- context [if (?x <? length ?y) then _ else _] => destruct (x <? length y)
         end; cbn [pa_text pa_caret pa_sel_start pa_sel_end pa_end pa_ok];
    repeat match goal with
           | |- context [if (?x <? length ?y) then _ else _] => destruct (x <? length y)
           end; cbn [pa_text pa_caret pa_sel_start pa_sel_end pa_end pa_ok];
    destruct cp as [p|]; apply preedit_finish; cbs.
Qed.
