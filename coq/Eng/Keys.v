(** Eng/Keys.v – key events, modifier masks, action names of the key-binding
    processors, C++ integer conversions.  Model only (no proofs).

    Ported from src/rime/key_event.h, src/rime/key_table.h (masks),
    include/X11/keysymdef.h (the few keysyms the model names itself; the
    default key *maps* come from Gen/Keymaps.v, regenerated from the source). *)
From Coq Require Import List ZArith NArith Bool.
Import ListNotations.
Local Open Scope Z_scope.

(** A key event is (keycode, modifier), both C++ [int]. *)
Record key := mkKey { k_code : Z; k_mod : Z }.

Definition key_eqb (a b : key) : bool := (k_code a =? k_code b) && (k_mod a =? k_mod b).

(** modifier masks (key_table.h) *)
Definition kShiftMask : Z := 1.
Definition kLockMask : Z := 2.
Definition kControlMask : Z := 4.
Definition kAltMask : Z := 8.
Definition kSuperMask : Z := 67108864.      (* 1 << 26 *)
Definition kReleaseMask : Z := 1073741824.  (* 1 << 30 *)

Definition k_shift (k : key) : bool := Z.testbit (k_mod k) 0.
Definition k_ctrl (k : key) : bool := Z.testbit (k_mod k) 2.
Definition k_alt (k : key) : bool := Z.testbit (k_mod k) 3.
Definition k_super (k : key) : bool := Z.testbit (k_mod k) 26.
Definition k_release (k : key) : bool := Z.testbit (k_mod k) 30.

(** [modifier & ~kShiftMask] and [... | kControlMask] *)
Definition clear_shift (m : Z) : Z := Z.land m (Z.lnot kShiftMask).
Definition shift_as_control (m : Z) : Z := Z.lor (clear_shift m) kControlMask.

(** keysyms used by name in the C++ processors themselves *)
Definition XK_space : Z := 32.
Definition XK_0 : Z := 48.
Definition XK_9 : Z := 57.
Definition XK_KP_0 : Z := 65456.  (* 0xffb0 *)
Definition XK_KP_9 : Z := 65465.  (* 0xffb9 *)
(** keysyms named by the C05 key alphabet (checked against Gen/Keymaps.v by
    the theorems that use them) *)
Definition XK_BackSpace : Z := 65288.  (* 0xff08 *)
Definition XK_Return : Z := 65293.     (* 0xff0d *)
Definition XK_Escape : Z := 65307.     (* 0xff1b *)
Definition XK_Home : Z := 65360.       (* 0xff50 *)
Definition XK_End : Z := 65367.        (* 0xff57 *)
Definition XK_KP_Left : Z := 65430.    (* 0xff96 *)
Definition XK_KP_Right : Z := 65432.   (* 0xff98 *)
Definition XK_Delete : Z := 65535.     (* 0xffff *)

(** Action names of the three KeyBindingProcessor instances. *)
Inductive editor_action :=
| EdConfirm | EdToggleSelection | EdCommitComment | EdCommitRawInput
| EdCommitScriptText | EdCommitComposition | EdRevertLastEdit
| EdBackToPreviousInput | EdBackToPreviousSyllable | EdDeleteCandidate
| EdDeleteChar | EdCancelComposition
| EdUnrecognised.
Inductive char_handler := CHDirectCommit | CHAddToInput | CHNone | CHUnrecognised.
Inductive nav_action :=
| NavRewind | NavLeftByChar | NavRightByChar | NavLeftBySyllable
| NavRightBySyllable | NavHome | NavEnd
| NavUnrecognised.
Inductive sel_action :=
| SelPreviousCandidate | SelNextCandidate | SelPreviousPage | SelNextPage
| SelHome | SelEnd
| SelUnrecognised.

(** A key map is built by [Bind] calls in source order; a later [Bind] of the
    same key event replaces the earlier one (std::map assignment). *)
Definition keymap (A : Type) := list (key * A).

Fixpoint keymap_bind {A} (m : keymap A) (k : key) (a : A) : keymap A :=
  match m with
  | [] => [(k, a)]
  | (k', a') :: r => if key_eqb k' k then (k, a) :: r else (k', a') :: keymap_bind r k a
  end.

Definition keymap_of_binds {A} (binds : list (Z * Z * A)) : keymap A :=
  fold_left (fun m b => match b with (c, md, a) => keymap_bind m (mkKey c md) a end) binds [].

Fixpoint keymap_find {A} (m : keymap A) (k : key) : option A :=
  match m with
  | [] => None
  | (k', a) :: r => if key_eqb k' k then Some a else keymap_find r k
  end.

(** C++ integer conversions.  [size_t] is 64 bit, [int] is 32 bit two's
    complement (x86-64 Linux, the platform of the harness). *)
Definition int_of_size (n : N) : Z :=
  let m := Z.of_N n mod 4294967296 in
  if m <? 2147483648 then m else m - 4294967296.
Definition size_of_int (z : Z) : N := Z.to_N (z mod 18446744073709551616).
Definition size_max : N := 18446744073709551615%N.
Definition size_wrap (n : N) : N := (n mod 18446744073709551616)%N.
