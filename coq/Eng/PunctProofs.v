(** Eng/PunctProofs.v – the synthetic schemas with punctuator / punct_segmentor /
    punct_translator (synth_punct_express, synth_punct_fluid) meet the hypotheses of the
    C02 theorem; what C01's totality theorem needs beyond its plain chains, shown by two
    witnesses (both replayed against the real code, see replays/eng-*.txt):

    [commit_history_dangling]  with the source shape of CommitHistory::Push that does not
        reset [last] in its raw branch, a history on synth_fluid reaches the use after
        free (ErrDangling) – the reason for the hypothesis [cf_hist_guard];
    [punct_chain_stale_menu]   with punct_segmentor between abc_segmentor and
        fallback_segmentor and punctuation tables whose key sets differ between half_shape
        and full_shape, a closed raw segment cut short by a partial candidate is no longer
        re-absorbed by the fallback segmentor (the punct segmentor takes the next byte
        after a full_shape toggle); Segment::Reopen then revives its stale menu and
        Composition::GetPreedit calls substr with pos > size – although every candidate
        lies inside the segment it was made for ([cands_fit_seg]). *)
From Coq Require Import List Arith NArith ZArith Bool Lia.
From Coq.Strings Require Import Byte.
From RimeV Require Import Base.Bytes Eng.Keys Eng.Cand Eng.Menu Eng.Segm Eng.Ctx Eng.Engine Eng.Trans Eng.TransProofs
     Eng.Procs Eng.Api Eng.Oracle Eng.Spec Eng.WfProofs Eng.CommitProofs Eng.InvProofs Eng.TotalFull Eng.TotalProofs.
Import ListNotations.

Lemma synth_punct_width fluid dlog : punct_width (synth_punct_cfg fluid dlog) = 4.
Proof. destruct fluid; reflexivity. Qed.

Lemma synth_punct_translate_length fluid dlog i s :
  length (synth_translate (synth_punct_cfg fluid dlog) i s) <= 44.
Proof.
  unfold synth_translate.
  pose proof (all_translate_length2 (synth_punct_cfg fluid dlog) oracle_translate i s eq_refl) as H.
  pose proof (punct_translate_length (synth_punct_cfg fluid dlog) i s) as H1. rewrite synth_punct_width in H1.
  pose proof (oracle_translate_length i s). lia.
Qed.

Lemma synth_punct_total_hyps fluid dlog :
  total_hyps (synth_punct_cfg fluid dlog) (synth_translate (synth_punct_cfg fluid dlog)).
Proof.
  split; [cbn; lia|]. split; [|reflexivity]. intros i s. pose proof (synth_punct_translate_length fluid dlog i s).
  change (cf_page_size (synth_punct_cfg fluid dlog)) with 5%Z. lia.
Qed.

(** C02 on the punctuator schemas *)
Theorem wf_reported_synth_punct fluid dlog ops :
  forallb wf_obsb (snd (run (synth_punct_cfg fluid dlog) (synth_translate (synth_punct_cfg fluid dlog)) ops)) = true.
Proof. destruct (synth_punct_total_hyps fluid dlog) as (H1 & H2 & H3). apply wf_reported; assumption. Qed.

(** C01 (part): no null dereference, no invalid page range on the punctuator schemas *)
Theorem core_total_partial_synth_punct fluid dlog ops :
  Forall no_null_no_bad_range_obs
         (snd (run (synth_punct_cfg fluid dlog) (synth_translate (synth_punct_cfg fluid dlog)) ops)).
Proof. apply core_total_partial, synth_punct_total_hyps. Qed.

(** candidates lie inside the segment they were made for – for the (input, segment) pairs
    TranslateSegments produces: the input is the segment's stretch of the composition input *)
Definition cands_fit_seg (translate : bytes -> seginfo -> list cand) : Prop :=
  forall i s c, length i = si_end s - si_start s -> In c (translate i s) ->
                si_start s < c_end c /\ c_end c <= si_start s + length i.

Lemma cands_fit_fit_seg translate : cands_fit translate -> cands_fit_seg translate.
Proof. intros H i s c _ Hc. apply (H i s c Hc). Qed.

Lemma all_translate_fit_seg cfg main : cands_fit main -> cands_fit_seg (all_translate cfg main).
Proof.
  intros Hm i s c Hlen Hc. apply all_translate_In in Hc as [Hc | Hc]; [|apply (Hm i s c Hc)].
  destruct (punct_translate_span cfg i s c Hc) as (_ & He & Hne). rewrite He.
  assert (0 < length i) by (destruct i; [congruence | cbn; lia]). lia.
Qed.

(** ---- witness 1: CommitHistory::Push without the reset ---- *)
Fixpoint rep {A} (n : nat) (l : list A) : list A := match n with 0 => [] | S k => l ++ rep k l end.
Definition dangling_ops : list op :=
  [OpKey 97 0; OpKey 120 0; OpSelect 3; OpKey 32 0] ++ rep 21 [OpKey 120 0; OpKey 32 0] ++ [OpKey 97 0; OpCommit].

Theorem commit_history_dangling :
  let cfg := synth_cfg_gen true true true true false in
  total_hyps cfg oracle_translate /\ cands_fit oracle_translate /\
  cf_segmentors cfg = [SgAbc; SgFallback] /\ ~ In PPunctuator (cf_processors cfg) /\
  existsb (fun o => match o with ObsCrash ErrDangling => true | _ => false end)
          (snd (run cfg oracle_translate dangling_ops)) = true.
Proof.
  cbv zeta. split.
  { split; [cbn; lia|]. split; [|reflexivity]. intros i s. pose proof (oracle_translate_length i s). cbn. lia. }
  split; [exact oracle_cands_fit|]. split; [reflexivity|].
  split; [cbn; intros [H | [H | [H | [H | []]]]]; discriminate H|].
  vm_compute. reflexivity.
Qed.

(** with the reset the same history is harmless *)
Example commit_history_guarded_ok :
  forallb not_crash (snd (run (synth_cfg_gen true true true true true) oracle_translate dangling_ops)) = true.
Proof. vm_compute. reflexivity. Qed.

(** ---- witness 2: punct_segmentor and a full_shape toggle ---- *)
Definition stale_menu_ops : list op :=
  [OpKey 60 0; OpKey 60 0; OpKey 60 0; OpSelect 0; OpSetOption opt_full_shape true; OpKey XK_BackSpace 0;
   OpSelect 8; OpSetCaret 1; OpKey XK_BackSpace 0; OpKey XK_Delete 0; OpKey XK_Delete 0; OpSelect 0].

Theorem punct_chain_stale_menu :
  let cfg := synth_punct_cfg_gen true true true true true in
  total_hyps cfg (synth_translate cfg) /\ cf_hist_guard cfg = true /\ cands_fit_seg (synth_translate cfg) /\
  cf_segmentors cfg = [SgAbc; SgPunct; SgFallback] /\
  existsb (fun o => match o with ObsCrash ErrSubstr => true | _ => false end)
          (snd (run cfg (synth_translate cfg) stale_menu_ops)) = true.
Proof.
  cbv zeta. split.
  { split; [cbn; lia|]. split; [|reflexivity]. intros i s.
    pose proof (all_translate_length2 (synth_punct_cfg_gen true true true true true) oracle_translate i s eq_refl) as H.
    pose proof (punct_translate_length (synth_punct_cfg_gen true true true true true) i s) as H1.
    assert (E : punct_width (synth_punct_cfg_gen true true true true true) = 4) by reflexivity. rewrite E in H1.
    pose proof (oracle_translate_length i s). unfold synth_translate.
    change (cf_page_size (synth_punct_cfg_gen true true true true true)) with 5%Z. lia. }
  split; [reflexivity|]. split; [apply all_translate_fit_seg, oracle_cands_fit|]. split; [reflexivity|].
  vm_compute. reflexivity.
Qed.

(** the full statement for chains with punct_segmentor (not proved; [punct_chain_stale_menu]
    shows that the hypotheses of the plain chains do not suffice): the candidate hypothesis in
    the [cands_fit_seg] form plus agreement of the two mappings on their key sets *)
Definition punct_keys_agree (cfg : config) : Prop :=
  forall b, pd_assoc (cf_punct_half cfg) b = None <-> pd_assoc (cf_punct_full cfg) b = None.
Definition core_total_punct_full : Prop :=
  forall cfg translate, total_hyps cfg translate -> cf_hist_guard cfg = true -> cands_fit_seg translate ->
    cf_segmentors cfg = [SgAbc; SgPunct; SgFallback] -> punct_keys_agree cfg ->
    forall ops, forallb not_crash (snd (run cfg translate ops)) = true.
