(** Eng/TransProofs.v – facts about the merged translations of Trans.v: every
    candidate of a menu comes from one of the translators, the menu is no longer
    than the translations together, a single translator's list is the menu. *)
From Coq Require Import List Arith NArith ZArith Bool Lia.
From Coq.Strings Require Import Byte.
From RimeV Require Import Base.Bytes Eng.Keys Eng.Cand Eng.Menu Eng.Segm Eng.Ctx Eng.Engine Eng.Trans.
Import ListNotations.

Lemma take_at_spec k : forall ts c ts',
  take_at k ts = Some (c, ts') ->
  (exists t, In t ts /\ In c t) /\
  (forall t', In t' ts' -> exists t, In t ts /\ incl t' t) /\
  total_len ts = S (total_len ts').
Proof.
  induction k as [|k IH]; intros [|t r] c ts' H; cbn [take_at] in H; try discriminate.
  - destruct t as [|c0 t0]; [discriminate|]. injection H as <- <-. split; [exists (c0 :: t0); split; [left; reflexivity | left; reflexivity]|].
    split.
    + intros t' Ht'. destruct t0 as [|c1 t1].
      * exists t'. split; [right; exact Ht' | apply incl_refl].
      * destruct Ht' as [<- | Ht']; [exists (c0 :: c1 :: t1); split; [left; reflexivity | apply incl_tl, incl_refl]|].
        exists t'. split; [right; exact Ht' | apply incl_refl].
    + destruct t0; unfold total_len; cbn; lia.
  - destruct (take_at k r) as [[c1 r']|] eqn:E; [|discriminate]. injection H as <- <-.
    destruct (IH r c1 r' E) as ((t1 & Hin & Hc) & Hsub & Hlen). split; [exists t1; split; [right; exact Hin | exact Hc]|].
    split.
    + intros t' [<- | Ht']; [exists t; split; [left; reflexivity | apply incl_refl]|].
      destruct (Hsub t' Ht') as (t2 & H2 & I2). exists t2. split; [right; exact H2 | exact I2].
    + unfold total_len in *. cbn in *. lia.
Qed.

Lemma merge_loop_In fuel : forall ts c, In c (merge_loop fuel ts) -> exists t, In t ts /\ In c t.
Proof.
  induction fuel as [|f IH]; intros ts c H; [destruct H|]. cbn [merge_loop] in H.
  destruct (take_at (elect ts) ts) as [[c0 ts']|] eqn:E; [|destruct H].
  destruct (take_at_spec _ _ _ _ E) as (Hc0 & Hsub & _).
  destruct H as [<- | H]; [exact Hc0|].
  destruct (IH ts' c H) as (t' & Ht' & Hc). destruct (Hsub t' Ht') as (t & Ht & Hi). exists t. split; [exact Ht | apply Hi, Hc].
Qed.

Lemma merge_loop_length fuel : forall ts, length (merge_loop fuel ts) <= total_len ts.
Proof.
  induction fuel as [|f IH]; intros ts; [cbn; lia|]. cbn [merge_loop].
  destruct (take_at (elect ts) ts) as [[c0 ts']|] eqn:E; [|cbn; lia].
  destruct (take_at_spec _ _ _ _ E) as (_ & _ & Hlen). cbn [length]. specialize (IH ts'). lia.
Qed.

Lemma filter_nonempty_len (ts : list (list cand)) : total_len (filter nonempty ts) = total_len ts.
Proof. induction ts as [|t r IH]; [reflexivity|]. cbn [filter]. destruct t; unfold total_len in *; cbn in *; lia. Qed.

Lemma merge_translations_In ts c : In c (merge_translations ts) -> exists t, In t ts /\ In c t.
Proof.
  unfold merge_translations. intros H. destruct (merge_loop_In _ _ _ H) as (t & Ht & Hc).
  apply filter_In in Ht as (Ht & _). exists t. auto.
Qed.
Lemma merge_translations_length ts : length (merge_translations ts) <= total_len ts.
Proof. unfold merge_translations. rewrite <- (filter_nonempty_len ts). apply merge_loop_length. Qed.

(** one translation: the menu is that list *)
Lemma merge_loop_single l : forall fuel, length l <= fuel -> l <> [] -> merge_loop fuel [l] = l.
Proof.
  induction l as [|c r IH]; intros fuel Hf Hne; [congruence|]. destruct fuel as [|f]; [cbn in Hf; lia|].
  cbn [merge_loop elect take_at]. destruct r as [|c1 r1]; [destruct f; reflexivity|].
  f_equal. apply IH; [cbn in *; lia | discriminate].
Qed.
Lemma merge_translations_single l : merge_translations [l] = l.
Proof.
  unfold merge_translations. cbn [filter]. destruct l as [|c r]; [reflexivity|]. cbn [nonempty].
  apply merge_loop_single; [unfold total_len; cbn; lia | discriminate].
Qed.

Section AllTranslate.
Variable cfg : config.
Variable main : bytes -> seginfo -> list cand.

Lemma all_translate_In i s c :
  In c (all_translate cfg main i s) -> In c (punct_translate cfg i s) \/ In c (main i s).
Proof.
  unfold all_translate. intros H. destruct (merge_translations_In _ _ H) as (t & Ht & Hc).
  apply in_map_iff in Ht as (tr & <- & _). destruct tr; [left | right]; exact Hc.
Qed.

Lemma all_translate_main_only i s : cf_translators cfg = [TrMain] -> all_translate cfg main i s = main i s.
Proof. intros E. unfold all_translate. rewrite E. cbn [map translator_query]. apply merge_translations_single. Qed.

Lemma all_translate_length2 i s :
  cf_translators cfg = [TrPunct; TrMain] ->
  length (all_translate cfg main i s) <= length (punct_translate cfg i s) + length (main i s).
Proof.
  intros E. unfold all_translate. rewrite E. cbn [map translator_query].
  pose proof (merge_translations_length [punct_translate cfg i s; main i s]) as H.
  assert (E2 : total_len [punct_translate cfg i s; main i s] = length (punct_translate cfg i s) + length (main i s))
    by (unfold total_len; cbn [fold_right]; lia).
  rewrite E2 in H. exact H.
Qed.

(** punct_translator's candidates cover exactly their segment *)
Lemma punct_translate_span i s c : In c (punct_translate cfg i s) -> c_start c = si_start s /\ c_end c = si_end s /\ i <> [].
Proof.
  unfold punct_translate. destruct (has_tag TPunctNumber (si_tags s)).
  - destruct i as [|b r]; [intros []|]. intros [<- | []]. repeat split; discriminate.
  - destruct (negb (has_tag TPunct (si_tags s))); [intros []|].
    destruct i as [|b [|b2 r]]; [intros [] | | intros []].
    assert (Hm : forall l, In c (map (fun t => punct_cand t s) l) -> c_start c = si_start s /\ c_end c = si_end s /\ [b] <> [])
      by (intros l Hl; apply in_map_iff in Hl as (t & <- & _); repeat split; discriminate).
    assert (H1 : forall v, In c [punct_cand v s] -> c_start c = si_start s /\ c_end c = si_end s /\ [b] <> [])
      by (intros v [<- | []]; repeat split; discriminate).
    destruct (punct_lookup cfg (si_opts s) b) as [[v | l | [cm|] [pr|]]|].
    + apply H1.
    + apply Hm.
    + apply H1.
    + apply H1.
    + destruct (length pr =? 2); [apply Hm | intros []].
    + intros [].
    + intros [].
Qed.

(** number of candidates punct_translator can yield: the longest list of the two mappings (at least 1) *)
Definition pdef_width (d : pdef) : nat :=
  match d with PdValue _ => 1 | PdList l => length l | PdMap (Some _) _ => 1 | PdMap None (Some l) => length l | PdMap None None => 0 end.
Definition punct_width : nat :=
  fold_right (fun (kd : byte * pdef) n => Nat.max (pdef_width (snd kd)) n) 1 (cf_punct_half cfg ++ cf_punct_full cfg).

Lemma pd_assoc_in l b d : pd_assoc l b = Some d -> In d (map snd l).
Proof.
  induction l as [|[k d0] r IH]; [discriminate|]. cbn [pd_assoc]. destruct (Byte.eqb k b).
  - intros H; injection H as <-. left; reflexivity.
  - intros H. right. apply IH, H.
Qed.
Lemma width_ge l d : In d (map snd l) -> pdef_width d <= fold_right (fun (kd : byte * pdef) n => Nat.max (pdef_width (snd kd)) n) 1 l.
Proof.
  induction l as [|[k d0] r IH]; [intros []|]. cbn [map fold_right snd]. intros [<- | H]; [lia|]. specialize (IH H). lia.
Qed.
Lemma punct_translate_length i s : length (punct_translate cfg i s) <= punct_width.
Proof.
  assert (H1 : 1 <= punct_width) by (unfold punct_width; induction (cf_punct_half cfg ++ cf_punct_full cfg) as [|x r IH]; cbn; lia).
  unfold punct_translate. destruct (has_tag TPunctNumber (si_tags s)); [destruct i; cbn; lia|].
  destruct (negb (has_tag TPunct (si_tags s))); [cbn; lia|].
  destruct i as [|b [|b2 r]]; try (cbn; lia).
  destruct (punct_lookup cfg (si_opts s) b) as [d|] eqn:E; [|cbn; lia].
  assert (Hw : pdef_width d <= punct_width).
  { unfold punct_lookup in E. unfold punct_width. apply width_ge. rewrite map_app. apply in_or_app.
    destruct (opts_get (si_opts s) opt_full_shape); [right | left]; eapply pd_assoc_in; exact E. }
  destruct d as [v | l | [cm|] [pr|]]; cbn [pdef_width] in Hw; cbn [length]; rewrite ?map_length; try lia.
  destruct (length pr =? 2); [rewrite map_length; lia | cbn; lia].
Qed.

End AllTranslate.
