(** Extraction of the C09 model (ExtrOcamlBasic only). *)
From Coq Require Extraction.
From Coq Require ExtrOcamlBasic.
From RimeV Require Import Base.Bytes Dict.Algebra Dict.PrismModel.
Extraction "c09_model.ml" byte_of_N N_of_byte syllabary_of init_script merge project compile_script
  kind_deletion kind_addition build get_value common_prefix_search expand_search_fuel query_spelling.
