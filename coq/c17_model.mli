
type __ = Obj.t

val negb : bool -> bool

type nat =
| O
| S of nat

val option_map : ('a1 -> 'a2) -> 'a1 option -> 'a2 option

val fst : ('a1 * 'a2) -> 'a1

val snd : ('a1 * 'a2) -> 'a2

val length : 'a1 list -> nat

val app : 'a1 list -> 'a1 list -> 'a1 list

type comparison =
| Eq
| Lt
| Gt

val compOpp : comparison -> comparison

val add : nat -> nat -> nat

type byte =
| X00
| X01
| X02
| X03
| X04
| X05
| X06
| X07
| X08
| X09
| X0a
| X0b
| X0c
| X0d
| X0e
| X0f
| X10
| X11
| X12
| X13
| X14
| X15
| X16
| X17
| X18
| X19
| X1a
| X1b
| X1c
| X1d
| X1e
| X1f
| X20
| X21
| X22
| X23
| X24
| X25
| X26
| X27
| X28
| X29
| X2a
| X2b
| X2c
| X2d
| X2e
| X2f
| X30
| X31
| X32
| X33
| X34
| X35
| X36
| X37
| X38
| X39
| X3a
| X3b
| X3c
| X3d
| X3e
| X3f
| X40
| X41
| X42
| X43
| X44
| X45
| X46
| X47
| X48
| X49
| X4a
| X4b
| X4c
| X4d
| X4e
| X4f
| X50
| X51
| X52
| X53
| X54
| X55
| X56
| X57
| X58
| X59
| X5a
| X5b
| X5c
| X5d
| X5e
| X5f
| X60
| X61
| X62
| X63
| X64
| X65
| X66
| X67
| X68
| X69
| X6a
| X6b
| X6c
| X6d
| X6e
| X6f
| X70
| X71
| X72
| X73
| X74
| X75
| X76
| X77
| X78
| X79
| X7a
| X7b
| X7c
| X7d
| X7e
| X7f
| X80
| X81
| X82
| X83
| X84
| X85
| X86
| X87
| X88
| X89
| X8a
| X8b
| X8c
| X8d
| X8e
| X8f
| X90
| X91
| X92
| X93
| X94
| X95
| X96
| X97
| X98
| X99
| X9a
| X9b
| X9c
| X9d
| X9e
| X9f
| Xa0
| Xa1
| Xa2
| Xa3
| Xa4
| Xa5
| Xa6
| Xa7
| Xa8
| Xa9
| Xaa
| Xab
| Xac
| Xad
| Xae
| Xaf
| Xb0
| Xb1
| Xb2
| Xb3
| Xb4
| Xb5
| Xb6
| Xb7
| Xb8
| Xb9
| Xba
| Xbb
| Xbc
| Xbd
| Xbe
| Xbf
| Xc0
| Xc1
| Xc2
| Xc3
| Xc4
| Xc5
| Xc6
| Xc7
| Xc8
| Xc9
| Xca
| Xcb
| Xcc
| Xcd
| Xce
| Xcf
| Xd0
| Xd1
| Xd2
| Xd3
| Xd4
| Xd5
| Xd6
| Xd7
| Xd8
| Xd9
| Xda
| Xdb
| Xdc
| Xdd
| Xde
| Xdf
| Xe0
| Xe1
| Xe2
| Xe3
| Xe4
| Xe5
| Xe6
| Xe7
| Xe8
| Xe9
| Xea
| Xeb
| Xec
| Xed
| Xee
| Xef
| Xf0
| Xf1
| Xf2
| Xf3
| Xf4
| Xf5
| Xf6
| Xf7
| Xf8
| Xf9
| Xfa
| Xfb
| Xfc
| Xfd
| Xfe
| Xff

val to_bits :
  byte -> bool * (bool * (bool * (bool * (bool * (bool * (bool * bool))))))

val eqb : bool -> bool -> bool

val nth : nat -> 'a1 list -> 'a1 -> 'a1

val concat : 'a1 list list -> 'a1 list

val map : ('a1 -> 'a2) -> 'a1 list -> 'a2 list

val flat_map : ('a1 -> 'a2 list) -> 'a1 list -> 'a2 list

val fold_left : ('a1 -> 'a2 -> 'a1) -> 'a2 list -> 'a1 -> 'a1

val existsb : ('a1 -> bool) -> 'a1 list -> bool

val filter : ('a1 -> bool) -> 'a1 list -> 'a1 list

val firstn : nat -> 'a1 list -> 'a1 list

type positive =
| XI of positive
| XO of positive
| XH

type n =
| N0
| Npos of positive

type z =
| Z0
| Zpos of positive
| Zneg of positive

module Pos :
 sig
  type mask =
  | IsNul
  | IsPos of positive
  | IsNeg
 end

module Coq_Pos :
 sig
  val succ : positive -> positive

  val add : positive -> positive -> positive

  val add_carry : positive -> positive -> positive

  val pred_double : positive -> positive

  type mask = Pos.mask =
  | IsNul
  | IsPos of positive
  | IsNeg

  val succ_double_mask : mask -> mask

  val double_mask : mask -> mask

  val double_pred_mask : positive -> mask

  val sub_mask : positive -> positive -> mask

  val sub_mask_carry : positive -> positive -> mask

  val mul : positive -> positive -> positive

  val size : positive -> positive

  val compare_cont : comparison -> positive -> positive -> comparison

  val compare : positive -> positive -> comparison

  val eqb : positive -> positive -> bool

  val iter_op : ('a1 -> 'a1 -> 'a1) -> positive -> 'a1 -> 'a1

  val to_nat : positive -> nat

  val of_succ_nat : nat -> positive
 end

module N :
 sig
  val succ_double : n -> n

  val double : n -> n

  val add : n -> n -> n

  val sub : n -> n -> n

  val mul : n -> n -> n

  val compare : n -> n -> comparison

  val leb : n -> n -> bool

  val ltb : n -> n -> bool

  val max : n -> n -> n

  val log2 : n -> n

  val pos_div_eucl : positive -> n -> n * n

  val div_eucl : n -> n -> n * n

  val div : n -> n -> n

  val modulo : n -> n -> n

  val to_nat : n -> nat

  val of_nat : nat -> n
 end

val eqb0 : byte -> byte -> bool

val to_N : byte -> n

val of_N : n -> byte option

type ascii =
| Ascii of bool * bool * bool * bool * bool * bool * bool * bool

val eqb1 : ascii -> ascii -> bool

module Z :
 sig
  val double : z -> z

  val succ_double : z -> z

  val pred_double : z -> z

  val pos_sub : positive -> positive -> z

  val add : z -> z -> z

  val opp : z -> z

  val compare : z -> z -> comparison

  val leb : z -> z -> bool

  val ltb : z -> z -> bool

  val eqb : z -> z -> bool

  val max : z -> z -> z

  val min : z -> z -> z

  val abs : z -> z

  val abs_N : z -> n

  val of_nat : nat -> z

  val of_N : n -> z
 end

type string =
| EmptyString
| String of ascii * string

val eqb2 : string -> string -> bool

type bytes = byte list

val byte_of_N : n -> byte

val n_of_byte : byte -> n

val bytes_eqb : bytes -> bytes -> bool

val bytes_ltb : bytes -> bytes -> bool

val is_space : byte -> bool

val is_digit : byte -> bool

val digit_val : byte -> n

val digit_byte : n -> byte

val dec_digits : nat -> n -> bytes

val print_N : n -> bytes

val print_Z : z -> bytes

val drop_ws : bytes -> bytes

val take_sign : bytes -> bool * bytes

val digits_acc : n -> bool -> bytes -> n * bool

val parse_int : bytes -> (bool * n) option

val iNT_MIN : z

val iNT_MAX : z

val uLONG_MAX : n

val stoi : bytes -> z option

val stoul : bytes -> n option

val split_on : (byte -> bool) -> bytes -> bytes list

val cut_at : byte -> bytes -> (bytes * bytes) option

type dee_ops = { d_zero : __; d_parse : (bytes -> __ option);
                 d_print : (__ -> bytes); d_decay : (__ -> n -> n -> __);
                 d_max : (__ -> __ -> __); d_of_commits : (z -> __) }

type d = __

type value = { commits : z; dee : d; tick : n }

val value0 : dee_ops -> value

val set_commits : dee_ops -> value -> z -> value

val set_dee : dee_ops -> value -> d -> value

val set_tick : dee_ops -> value -> n -> value

val k_c : bytes

val k_d : bytes

val k_t : bytes

val is_sp : byte -> bool

val pack : dee_ops -> value -> bytes

val unpack_item : dee_ops -> value -> bytes -> value option

val unpack_items : dee_ops -> value -> bytes list -> value * bool

val unpack_into : dee_ops -> value -> bytes -> value * bool

val unpack : dee_ops -> bytes -> value

val lower : byte -> byte

val starts_with_ci : bytes -> bytes -> bool

val stod_ok : bytes -> bool

val erased_ops : dee_ops

type amap = (bytes * bytes) list

val find : bytes -> amap -> bytes option

val mem : bytes -> amap -> bool

val replace : bytes -> bytes -> amap -> amap

val insert : bytes -> bytes -> amap -> amap

val upd : bytes -> bytes -> amap -> amap

type db = { meta : amap; data : amap }

val empty_db : db

val meta_update : bytes -> bytes -> db -> db

val data_update : bytes -> bytes -> db -> db

val sp : bytes

val query_all : amap -> amap

val mk_tick : bytes

val mk_user_id : bytes

val mk_db_name : bytes

val mk_db_type : bytes

val mk_rime_version : bytes

val s_userdb : bytes

val get_tick_count : db -> n

type merger = { m_db : db; our_tick : n; their_tick : n; max_tick : n;
                merged_entries : z option; m_uninit : bool }

val mk_merger : bool -> db -> merger

val rd : z -> z option -> z

val is_none : z option -> bool

val m_meta_put : merger -> bytes -> bytes -> merger

val merge_value : dee_ops -> n -> n -> n -> bytes option -> bytes -> value

val m_put : dee_ops -> z -> merger -> bytes -> bytes -> merger * bool

val m_close : z -> bytes -> merger -> merger

val merge_run : dee_ops -> bool -> z -> bytes -> db -> db -> merger

val merge_count : dee_ops -> bool -> z -> db -> db -> nat

val merge_db : dee_ops -> bool -> z -> bytes -> db -> db -> db

val import_value : dee_ops -> bytes option -> bytes -> value

val imp_put : dee_ops -> db -> bytes -> bytes -> db

val sink_meta_put : db -> bytes -> bytes -> db

val sink_put : db -> bytes -> bytes -> db

val entry_obs : dee_ops -> (bytes * bytes) -> (bytes * z) * n

val dump : dee_ops -> db -> ((bytes * z) * n) list

val tAB : byte

val lF : byte

val hASH : byte

val is_tab : byte -> bool

val is_lf : byte -> bool

val trim_right : bytes -> bytes

val trim : bytes -> bytes

val join_tab : bytes list -> bytes

val last_byte : bytes -> byte option

val lines_of : bytes -> bytes list

val is_empty : bytes -> bool

val userdb_formatter : bytes -> bytes -> bytes list option

val userdb_parser : bytes list -> (bytes * bytes) option

val table_formatter : dee_ops -> bytes -> bytes -> bytes list option

val table_parser : dee_ops -> bytes list -> (bytes * bytes) option

val description_line : bytes -> bytes

val meta_line : (bytes * bytes) -> bytes

val data_line :
  (bytes -> bytes -> bytes list option) -> (bytes * bytes) -> bytes

val data_counts :
  (bytes -> bytes -> bytes list option) -> (bytes * bytes) -> bool

val tsv_write :
  bytes -> (bytes -> bytes -> bytes list option) -> amap -> amap -> bytes

val tsv_write_count : (bytes -> bytes -> bytes list option) -> amap -> nat

val s_no_comment : bytes

type 's rstate = { r_sink : 's; r_comment : bool; r_count : nat }

val read_line :
  (bytes list -> (bytes * bytes) option) -> ('a1 -> bytes -> bytes ->
  'a1 * bool) -> ('a1 -> bytes -> bytes -> 'a1 * bool) -> 'a1 rstate -> bytes
  -> 'a1 rstate

val tsv_read :
  (bytes list -> (bytes * bytes) option) -> ('a1 -> bytes -> bytes ->
  'a1 * bool) -> ('a1 -> bytes -> bytes -> 'a1 * bool) -> bytes -> 'a1 -> 'a1
  rstate

val s_descr_userdb : bytes

val s_descr_export : bytes

val s_unknown : bytes

val s_dot_userdb : bytes

val s_dot_temp : bytes

val starts_with : bytes -> bytes -> bool

val find_last_pos : bytes -> bytes -> nat -> nat option -> nat option

val strip_userdb : bytes -> bytes

val get_user_id : db -> bytes

val is_user_db : db -> bool

val get_db_name : db -> bytes

val create_metadata : bytes -> bytes -> bytes -> db -> db

val open_rw : bytes -> bytes -> bytes -> db -> db

val uniform_backup : db -> bytes

val uniform_restore : bytes -> db -> db

val um_backup : bytes -> bytes -> bytes -> db -> db * bytes

type restore_result =
| RestoreOk
| RestoreFailed
| RestoreOtherDb

val um_restore :
  dee_ops -> bool -> z -> bytes -> bytes -> bytes -> bytes -> db ->
  db * restore_result

val um_export : dee_ops -> db -> (bytes * nat) option

val um_import :
  dee_ops -> bytes -> bytes -> bytes -> bytes -> db -> db * nat option

val um_sync :
  dee_ops -> bool -> z -> bytes -> bytes -> bytes -> bytes list -> db ->
  db * bytes

val um_sync_ok :
  dee_ops -> bool -> z -> bytes -> bytes -> bytes -> bytes list -> db -> bool

type world = { w_dbs : db list; w_snaps : bytes option list;
               w_files : bytes option list }

type op =
| OBackup of nat
| ORestore of nat * nat
| ORestoreFile of nat * nat
| OSync of nat * nat list
| OExport of nat * nat
| OImport of nat * nat
| OMerge of nat * nat
| OUBackup of nat * nat
| OURestore of nat * nat

val uid_of : nat -> bytes

val dict_name : bytes

val set_nth : nat -> 'a1 -> 'a1 list -> 'a1 list

val get_db : world -> nat -> db

val set_db : world -> nat -> db -> world

val set_snap : world -> nat -> bytes -> world

val set_file : world -> nat -> bytes -> world

val snaps_in_order : world -> nat list -> bytes list

val restore_code : restore_result -> z

val nOFILE : z

val step_ret : dee_ops -> bool -> z -> bytes -> world -> op -> world * z

type init_kind =
| InClass
| CtorInitList
| CtorBody
| NotInitialised
| Unrecognised

val is_init : init_kind -> bool

val field_initialised : (string * init_kind) list -> string -> bool

val translator_ok : bool

val merger_fields : (string * init_kind) list

val ctor_inits_merged_entries : bool
