(** Extraction of the C20 model (ExtrOcamlBasic only). *)
From Coq Require Extraction.
From Coq Require ExtrOcamlBasic.
From RimeV Require Import Base.Bytes Buf.CopyModel Gen.CopySites.
Extraction "c20_model.ml" byte_of_N N_of_byte run copy_postb copy_sites idiom_ok.
