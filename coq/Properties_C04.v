(** C04 – menu pages are windows onto one stable, duplicate-free candidate list.
    Property theorems only; each closed by [exact]/[apply] of a lemma proved in MenuM/.
    [shown c] = (text, comment) is what the API reports of a candidate;
    [full_list m] is the menu's candidate vector after fetching everything. *)
From Coq Require Import List Arith NArith Bool.
From RimeV Require Import MenuM.Gen MenuM.Menu MenuM.Spec MenuM.GenProofs MenuM.MenuProofs
  MenuM.UniqProofs MenuM.WfProofs MenuM.SpecProofs MenuM.StackProofs MenuM.Examples MenuM.ConstsProofs Gen.MenuConsts.
Import ListNotations.

(** Fetching more candidates only appends: what was shown at an index stays
    shown there (the uniquifier may rewrite an earlier entry, but not its text
    or comment), and the list obtained by fetching everything is unchanged.
    All menus, all requests. *)
Theorem C04_prepare_appends : forall n m,
  (exists suf, map shown (m_cache (prepare n m)) = map shown (m_cache m) ++ suf) /\
  full_list (prepare n m) = full_list m.
Proof. intros n m. split; [apply prepare_appends|apply prepare_full]. Qed.
Print Assumptions C04_prepare_appends.

(** Menu::CreatePage: a page is the window [p*ps, p*ps+ps) of the full list;
    no page is returned exactly when the window is empty.  All menus (any
    translation tree, any filter chain, any fetch state), all page sizes > 0,
    all page numbers. *)
Theorem C04_page_is_window : forall ps pno m, 0 < ps ->
  match fst (create_page ps pno m) with
  | Some pg => map shown (pg_cands pg) = firstn ps (skipn (ps * pno) (map shown (full_list m)))
  | None => length (full_list m) <= ps * pno
  end /\ full_list (snd (create_page ps pno m)) = full_list m.
Proof.
  intros ps pno m Hps. pose proof (create_page_spec ps pno m) as H. cbn zeta in H.
  destruct H as [H1 H2]. split; [|exact H1].
  destruct (fst (create_page ps pno m)) as [pg|]; [now apply H2|now apply H2].
Qed.
Print Assumptions C04_page_is_window.

(** The last-page flag is set exactly when nothing follows the page, for every
    well-formed menu state ([wf]: the representation invariant the constructors
    establish and Next keeps – see C04_wf_reachable). *)
Theorem C04_last_page_exact : forall ps pno m pg,
  wf (m_res m) = true -> 0 < ps -> fst (create_page ps pno m) = Some pg ->
  (pg_last pg = true <-> length (full_list m) <= ps * pno + ps).
Proof. exact create_page_last. Qed.
Print Assumptions C04_last_page_exact.

(** Every menu built from translations and filters is well-formed and stays so
    under any call sequence. *)
Theorem C04_wf_reachable : forall specs fs ps sel ops,
  wf (m_res (s_menu (snd (run (mkSess (menu_of specs fs) sel ps) ops)))) = true.
Proof. intros. apply run_wf. apply menu_of_wf. Qed.
Print Assumptions C04_wf_reachable.

(** RimeGetContext: page_no = selected/page_size, the highlighted position is
    selected mod page_size, position i of the page is element page_no*page_size+i
    of the full list, and is_last_page is exact. *)
Theorem C04_get_context_window : forall s cm,
  0 < s_ps s -> fst (get_context s) = Some cm ->
  cm_page_no cm = s_sel s / s_ps s /\ cm_hl cm = s_sel s mod s_ps s /\
  map shown (cm_cands cm) =
    firstn (s_ps s) (skipn (cm_page_no cm * s_ps s) (map shown (full_list (s_menu s)))) /\
  (wf (m_res (s_menu s)) = true ->
   (cm_last cm = true <-> length (full_list (s_menu s)) <= cm_page_no cm * s_ps s + s_ps s)).
Proof. exact get_context_spec. Qed.
Print Assumptions C04_get_context_window.

(** The list iteration API (candidate_list_from_index + next until False)
    enumerates the full list from any offset. *)
Theorem C04_iterator_agrees : forall from m,
  map shown (fst (iterate_all from m)) = skipn from (map shown (full_list m)).
Proof. exact iterate_all_spec. Qed.
Print Assumptions C04_iterator_agrees.

(** For any sequence of Prepare / CreatePage / GetCandidateAt / get_context /
    highlight / change_page / iterator / Selector paging calls, every candidate
    reported at absolute index i shows the text and comment of element i of the
    full list of the initial menu, and the full list never changes. *)
Theorem C04_order_independent : forall ops s,
  Forall (fun ob => Forall (fun ic => nth_error (map shown (full_list (s_menu s))) (fst ic) = Some (shown (snd ic)))
                           (o_items ob)) (fst (run s ops)) /\
  full_list (s_menu (snd (run s ops))) = full_list (s_menu s).
Proof. exact run_spec. Qed.
Print Assumptions C04_order_independent.

(** ... hence two reports of the same index anywhere in a call sequence agree. *)
Theorem C04_reports_stable : forall ops s ob1 ob2 i c1 c2,
  In ob1 (fst (run s ops)) -> In ob2 (fst (run s ops)) ->
  In (i, c1) (o_items ob1) -> In (i, c2) (o_items ob2) -> shown c1 = shown c2.
Proof. exact reports_stable. Qed.
Print Assumptions C04_reports_stable.

(** With the uniquifier as the last filter no two entries of the full list
    have the same text – any translations, any filters before it. *)
Theorem C04_uniq_no_dup : forall ts fs, NoDup (texts (full_list (build_menu ts (fs ++ [FUniquifier])))).
Proof. exact uniq_no_dup. Qed.
Print Assumptions C04_uniq_no_dup.

(** The order of data/minimal/cangjie5.schema.yaml: the uniquifier followed by
    the prefetching single-char filter.  The prefetch drains the uniquified
    stream while the menu's cache is still empty; the uniquifier's record of
    what it has already yielded keeps the list duplicate-free. *)
Theorem C04_uniq_then_single_char_no_dup : forall ts fs,
  NoDup (texts (full_list (build_menu ts (fs ++ [FUniquifier; FSingleChar])))).
Proof. exact uniq_single_no_dup. Qed.
Print Assumptions C04_uniq_then_single_char_no_dup.

(** The simplifier enters as an oracle: each filter instance carries its own
    function [conv] from a candidate to the non-empty list of candidates it is
    replaced by (None = left as it is); nothing is assumed of it (a Gallina
    function is deterministic).  All theorems above quantify over every menu and
    therefore hold for chains containing simplifiers.  The luna_pinyin chain
    (simplifier@zh_simp, simplifier@zh_tw, uniquifier): *)
Theorem C04_luna_pinyin_chain_no_dup : forall ts zh_simp zh_tw,
  NoDup (texts (full_list (build_menu ts [FSimplifier zh_simp; FSimplifier zh_tw; FUniquifier]))).
Proof. intros ts f g. exact (uniq_no_dup ts [FSimplifier f; FSimplifier g]). Qed.
Print Assumptions C04_luna_pinyin_chain_no_dup.

(** ... and cangjie5's (simplifier, uniquifier, single_char_filter) *)
Theorem C04_cangjie5_chain_no_dup : forall ts simp,
  NoDup (texts (full_list (build_menu ts [FSimplifier simp; FUniquifier; FSingleChar]))).
Proof. intros ts f. exact (uniq_single_no_dup ts [FSimplifier f]). Qed.
Print Assumptions C04_cangjie5_chain_no_dup.

(** The general claim: in ANY chain with a uniquifier after which no filter
    creates new texts (the later filters may hold candidates back, reorder or
    drop them: single_char_filter, charset filter, further uniquifiers) the full
    list has no two entries with the same text.  Any filters – simplifiers
    included – may come before; any menu the constructors can build. *)
Theorem C04_uniq_anywhere : forall specs fs1 fs2,
  Forall no_new_text fs2 ->
  NoDup (texts (full_list (menu_of specs (fs1 ++ FUniquifier :: fs2)))).
Proof. exact uniq_anywhere_spec. Qed.
Print Assumptions C04_uniq_anywhere.

(** the same over arbitrary well-formed translation states *)
Theorem C04_uniq_anywhere_wf : forall ts fs1 fs2,
  forallb wf ts = true -> Forall no_new_text fs2 ->
  NoDup (texts (full_list (build_menu ts (fs1 ++ FUniquifier :: fs2)))).
Proof. exact uniq_anywhere. Qed.
Print Assumptions C04_uniq_anywhere_wf.

(** The condition on the later filters is needed: a simplifier placed after the
    uniquifier maps two distinct texts to one (no stock schema has this order). *)
Theorem C04_uniq_before_simplifier_refuted :
  exists specs conv, ~ NoDup (texts (full_list (menu_of specs [FUniquifier; FSimplifier conv]))).
Proof. exact uniq_before_simplifier_refuted. Qed.
Print Assumptions C04_uniq_before_simplifier_refuted.

(** The charset filter of the model tests exactly the code-point ranges that
    is_extended_cjk() of the current src/rime/gear/charset_filter.cc tests
    (translator gen/menu_consts.py; it refuses rather than guess). *)
Theorem C04_charset_ranges_current :
  ext_cjk_recognised = true /\
  forall ch, is_extended_cjk ch = existsb (fun r => in_range (fst r) (snd r) ch) ext_cjk_ranges.
Proof. exact ext_cjk_ranges_current. Qed.
Print Assumptions C04_charset_ranges_current.

(** Non-vacuity: a live, well-formed menu (lazy merge of a distinct+cached
    stream, a second stream and the echo candidate, behind the uniquifier) in
    which an earlier cache entry is rewritten; its pages, highlight and iterator
    reads in a mixed order. *)
Theorem C04_example_state :
  wf (m_res ex_menu) = true /\ exhausted (m_res ex_menu) = false /\ m_cache ex_menu = [] /\
  texts (full_list ex_menu) = ex_texts /\ map c_uniq (full_list ex_menu) = [0; 2; 2; 0; 0].
Proof.
  split; [exact ex_wf|]. split; [exact (proj1 ex_live)|]. split; [exact (proj2 ex_live)|].
  split; [exact ex_full_list|exact ex_rewritten].
Qed.
Print Assumptions C04_example_state.

Theorem C04_example_run :
  map (fun ob => (o_ret ob, o_flag ob, o_hl ob, map (fun ic => (fst ic, c_text (snd ic))) (o_items ob)))
      (fst (run ex_sess ex_ops)) =
  [ (1, false, 2, []); (2, false, 0, [(2, tC); (3, tD)]); (1, false, 0, [(3, tD); (4, tE)]);
    (1, false, 0, []); (1, false, 0, [(0, tA); (1, tB)]); (1, false, 4, []);
    (3, true, 0, [(4, tE)]); (0, false, 0, []) ].
Proof. exact ex_run. Qed.
Print Assumptions C04_example_run.

Theorem C04_example_uniq_last :
  map (fun c => (c_text c, c_uniq c)) (full_list (build_menu dup_witness [FSingleChar; FUniquifier]))
  = [([0x4E00%N], 2)].
Proof. exact uniq_last_example. Qed.
Print Assumptions C04_example_uniq_last.

(** two table phrases with the same text met during the prefetch: one survives *)
Theorem C04_example_uniq_then_prefetch :
  map (fun c => (c_text c, c_comment c, c_uniq c)) (full_list (build_menu dup_witness [FUniquifier; FSingleChar]))
  = [([0x4E00%N], 1%N, 0)].
Proof. exact uniq_then_prefetch_example. Qed.
Print Assumptions C04_example_uniq_then_prefetch.

(** a concrete luna_pinyin-like chain: one-to-many and duplicate-creating conversions, merged by the uniquifier *)
Theorem C04_example_simplifier_chain :
  map (fun c => (c_text c, c_comment c, c_uniq c)) (full_list ex_simp_menu) =
  [([0x4E01%N], 1%N, 3); ([0x4E8C%N], 2%N, 0); ([66%N; 0x4E01%N], 1%N, 1)].
Proof. exact ex_simp_list. Qed.
Print Assumptions C04_example_simplifier_chain.
