(** Extraction of the C13 crash model (ExtrOcamlBasic only). *)
From Coq Require Extraction.
From Coq Require ExtrOcamlBasic.
From RimeV Require Import Dep.Crash Gen.BuildOrder.
Extraction "c13_model.ml" facts builder_ok load run_effs kill_effs start_file tag_index save_effs run_yeffs prog_fields.
