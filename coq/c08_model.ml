
(** val negb : bool -> bool **)

let negb = function
| true -> false
| false -> true

type nat =
| O
| S of nat

(** val fst : ('a1 * 'a2) -> 'a1 **)

let fst = function
| (x, _) -> x

(** val snd : ('a1 * 'a2) -> 'a2 **)

let snd = function
| (_, y) -> y

(** val length : 'a1 list -> nat **)

let rec length = function
| [] -> O
| _ :: l' -> S (length l')

(** val app : 'a1 list -> 'a1 list -> 'a1 list **)

let rec app l m =
  match l with
  | [] -> m
  | a :: l1 -> a :: (app l1 m)

(** val add : nat -> nat -> nat **)

let rec add n0 m =
  match n0 with
  | O -> m
  | S p -> S (add p m)

(** val mul : nat -> nat -> nat **)

let rec mul n0 m =
  match n0 with
  | O -> O
  | S p -> add m (mul p m)

(** val sub : nat -> nat -> nat **)

let rec sub n0 m =
  match n0 with
  | O -> n0
  | S k -> (match m with
            | O -> n0
            | S l -> sub k l)

module Nat =
 struct
  (** val eqb : nat -> nat -> bool **)

  let rec eqb n0 m =
    match n0 with
    | O -> (match m with
            | O -> true
            | S _ -> false)
    | S n' -> (match m with
               | O -> false
               | S m' -> eqb n' m')

  (** val leb : nat -> nat -> bool **)

  let rec leb n0 m =
    match n0 with
    | O -> true
    | S n' -> (match m with
               | O -> false
               | S m' -> leb n' m')

  (** val ltb : nat -> nat -> bool **)

  let ltb n0 m =
    leb (S n0) m

  (** val max : nat -> nat -> nat **)

  let rec max n0 m =
    match n0 with
    | O -> m
    | S n' -> (match m with
               | O -> n0
               | S m' -> S (max n' m'))

  (** val min : nat -> nat -> nat **)

  let rec min n0 m =
    match n0 with
    | O -> O
    | S n' -> (match m with
               | O -> O
               | S m' -> S (min n' m'))
 end

(** val rev : 'a1 list -> 'a1 list **)

let rec rev = function
| [] -> []
| x :: l' -> app (rev l') (x :: [])

(** val map : ('a1 -> 'a2) -> 'a1 list -> 'a2 list **)

let rec map f = function
| [] -> []
| a :: t -> (f a) :: (map f t)

(** val flat_map : ('a1 -> 'a2 list) -> 'a1 list -> 'a2 list **)

let rec flat_map f = function
| [] -> []
| x :: t -> app (f x) (flat_map f t)

(** val fold_left : ('a1 -> 'a2 -> 'a1) -> 'a2 list -> 'a1 -> 'a1 **)

let rec fold_left f l a0 =
  match l with
  | [] -> a0
  | b :: t -> fold_left f t (f a0 b)

(** val fold_right : ('a2 -> 'a1 -> 'a1) -> 'a1 -> 'a2 list -> 'a1 **)

let rec fold_right f a0 = function
| [] -> a0
| b :: t -> f b (fold_right f a0 t)

(** val existsb : ('a1 -> bool) -> 'a1 list -> bool **)

let rec existsb f = function
| [] -> false
| a :: l0 -> (||) (f a) (existsb f l0)

(** val filter : ('a1 -> bool) -> 'a1 list -> 'a1 list **)

let rec filter f = function
| [] -> []
| x :: l0 -> if f x then x :: (filter f l0) else filter f l0

(** val firstn : nat -> 'a1 list -> 'a1 list **)

let rec firstn n0 l =
  match n0 with
  | O -> []
  | S n1 -> (match l with
             | [] -> []
             | a :: l0 -> a :: (firstn n1 l0))

(** val skipn : nat -> 'a1 list -> 'a1 list **)

let rec skipn n0 l =
  match n0 with
  | O -> l
  | S n1 -> (match l with
             | [] -> []
             | _ :: l0 -> skipn n1 l0)

(** val seq : nat -> nat -> nat list **)

let rec seq start = function
| O -> []
| S len0 -> start :: (seq (S start) len0)

type positive =
| XI of positive
| XO of positive
| XH

type n =
| N0
| Npos of positive

(** val kNormalSpelling : nat **)

let kNormalSpelling =
  O

(** val kFuzzySpelling : nat **)

let kFuzzySpelling =
  S O

(** val kAbbreviation : nat **)

let kAbbreviation =
  S (S O)

(** val kCompletion : nat **)

let kCompletion =
  S (S (S O))

(** val kAmbiguousSpelling : nat **)

let kAmbiguousSpelling =
  S (S (S (S O)))

(** val kInvalidSpelling : nat **)

let kInvalidSpelling =
  S (S (S (S (S O))))

type sym = nat

type str = sym list

(** val str_eqb : str -> str -> bool **)

let rec str_eqb a b =
  match a with
  | [] -> (match b with
           | [] -> true
           | _ :: _ -> false)
  | x :: a' ->
    (match b with
     | [] -> false
     | y :: b' -> (&&) (Nat.eqb x y) (str_eqb a' b'))

type desc = { d_sid : nat; d_type : nat; d_cred : n }

type prism = (str * desc list) list

(** val lookup : str -> prism -> desc list option **)

let rec lookup k = function
| [] -> None
| p0 :: r -> let (k', ds) = p0 in if str_eqb k' k then Some ds else lookup k r

type pmatch = nat * desc list

(** val common_prefix_search : prism -> str -> pmatch list **)

let common_prefix_search p key =
  flat_map (fun l ->
    match lookup (firstn l key) p with
    | Some ds -> (l, ds) :: []
    | None -> []) (seq (S O) (length key))

(** val is_prefix : str -> str -> bool **)

let is_prefix a b =
  str_eqb a (firstn (length a) b)

(** val lex_le : str -> str -> bool **)

let rec lex_le a b =
  match a with
  | [] -> true
  | x :: a' ->
    (match b with
     | [] -> false
     | y :: b' -> (||) (Nat.ltb x y) ((&&) (Nat.eqb x y) (lex_le a' b')))

(** val key_le : str -> str -> bool **)

let key_le a b =
  (||) (Nat.ltb (length a) (length b))
    ((&&) (Nat.eqb (length a) (length b)) (lex_le a b))

(** val insert_key : (str * desc list) -> prism -> prism **)

let rec insert_key x = function
| [] -> x :: []
| y :: r ->
  if key_le (fst x) (fst y) then x :: (y :: r) else y :: (insert_key x r)

(** val sort_keys : prism -> prism **)

let sort_keys l =
  fold_right insert_key [] l

(** val expand_search : prism -> str -> nat -> pmatch list **)

let expand_search p key limit =
  firstn limit
    (map (fun kd -> ((length (fst kd)), (snd kd)))
      (sort_keys (filter (fun kd -> is_prefix key (fst kd)) p)))

type 'v nmap = (nat * 'v) list

(** val nm_find : nat -> 'a1 nmap -> 'a1 option **)

let rec nm_find k = function
| [] -> None
| p :: r -> let (k', v) = p in if Nat.eqb k' k then Some v else nm_find k r

(** val nm_set : nat -> 'a1 -> 'a1 nmap -> 'a1 nmap **)

let rec nm_set k v = function
| [] -> (k, v) :: []
| p :: r ->
  let (k', v') = p in
  if Nat.eqb k' k
  then (k, v) :: r
  else if Nat.ltb k k'
       then (k, v) :: ((k', v') :: r)
       else (k', v') :: (nm_set k v r)

(** val nm_erase : nat -> 'a1 nmap -> 'a1 nmap **)

let nm_erase k m =
  filter (fun kv -> negb (Nat.eqb (fst kv) k)) m

type cred = { c_base : n; c_comp : nat; c_pen : nat }

type props = { p_type : nat; p_end : nat; p_cred : cred }

type smap = props nmap

type evmap = smap nmap

type emap = evmap nmap

type vmap = nat nmap

type sindex = props list nmap

type sindices = sindex nmap

type graph = { g_input_length : nat; g_interpreted_length : nat;
               g_vertices : vmap; g_edges : emap; g_indices : sindices }

(** val empty_graph : graph **)

let empty_graph =
  { g_input_length = O; g_interpreted_length = O; g_vertices = []; g_edges =
    []; g_indices = [] }

(** val find_or_empty : nat -> 'a1 nmap nmap -> 'a1 nmap **)

let find_or_empty k m =
  match nm_find k m with
  | Some x -> x
  | None -> []

type vertex = nat * nat

(** val vle : vertex -> vertex -> bool **)

let vle a b =
  (||) (Nat.ltb (fst a) (fst b))
    ((&&) (Nat.eqb (fst a) (fst b)) (Nat.leb (snd a) (snd b)))

(** val q_push : vertex -> vertex list -> vertex list **)

let rec q_push x = function
| [] -> x :: []
| y :: r -> if vle x y then x :: (y :: r) else y :: (q_push x r)

(** val is_delim : sym list -> sym -> bool **)

let is_delim delims c =
  existsb (Nat.eqb c) delims

(** val delim_run : sym list -> str -> nat **)

let rec delim_run delims = function
| [] -> O
| c :: r -> if is_delim delims c then S (delim_run delims r) else O

(** val skip_delims : sym list -> str -> nat -> nat **)

let skip_delims delims inp p =
  add p (delim_run delims (skipn p inp))

(** val add_desc :
    bool -> bool -> nat -> (smap * nat) -> desc -> smap * nat **)

let add_desc strict_spelling matches_input end_pos acc d =
  if (&&) ((&&) strict_spelling matches_input)
       (negb (Nat.eqb d.d_type kNormalSpelling))
  then acc
  else let pr = { p_type = d.d_type; p_end = end_pos; p_cred = { c_base =
         d.d_cred; c_comp = O; c_pen = O } }
       in
       let sp =
         match nm_find d.d_sid (fst acc) with
         | Some old ->
           nm_set d.d_sid { p_type = (Nat.min old.p_type d.d_type); p_end =
             old.p_end; p_cred = old.p_cred } (fst acc)
         | None -> nm_set d.d_sid pr (fst acc)
       in
       (sp, (if Nat.ltb d.d_type (snd acc) then d.d_type else snd acc))

(** val process_match :
    sym list -> bool -> str -> nat -> nat -> (evmap * vertex list) -> pmatch
    -> evmap * vertex list **)

let process_match delims strict_spelling inp cur vtype st m =
  if Nat.eqb (fst m) O
  then st
  else let end_pos = skip_delims delims inp (add cur (fst m)) in
       let matches_input = (&&) (Nat.eqb cur O) (Nat.eqb end_pos (length inp))
       in
       let r =
         fold_left (add_desc strict_spelling matches_input end_pos) (snd m)
           ((find_or_empty end_pos (fst st)), kInvalidSpelling)
       in
       (match fst r with
        | [] -> ((nm_erase end_pos (fst st)), (snd st))
        | _ :: _ ->
          ((nm_set end_pos (fst r) (fst st)),
            (q_push (end_pos, (Nat.max (snd r) vtype)) (snd st))))

type fstate = { f_vertices : vmap; f_edges : emap; f_queue : vertex list;
                f_far : nat }

(** val forward_step :
    prism -> sym list -> bool -> str -> fstate -> fstate option **)

let forward_step p delims strict_spelling inp st =
  match st.f_queue with
  | [] -> None
  | v :: q ->
    let (cur, vt) = v in
    (match nm_find cur st.f_vertices with
     | Some _ ->
       Some { f_vertices = st.f_vertices; f_edges = st.f_edges; f_queue = q;
         f_far = st.f_far }
     | None ->
       let vs = nm_set cur vt st.f_vertices in
       let far = if Nat.ltb st.f_far cur then cur else st.f_far in
       (match common_prefix_search p (skipn cur inp) with
        | [] ->
          Some { f_vertices = vs; f_edges = st.f_edges; f_queue = q; f_far =
            far }
        | p0 :: l ->
          let r =
            fold_left (process_match delims strict_spelling inp cur vt)
              (p0 :: l) ((find_or_empty cur st.f_edges), q)
          in
          Some { f_vertices = vs; f_edges = (nm_set cur (fst r) st.f_edges);
          f_queue = (snd r); f_far = far }))

(** val forward_loop :
    prism -> sym list -> bool -> str -> nat -> fstate -> fstate option **)

let rec forward_loop p delims strict_spelling inp fuel st =
  match fuel with
  | O -> None
  | S f ->
    (match forward_step p delims strict_spelling inp st with
     | Some st' -> forward_loop p delims strict_spelling inp f st'
     | None -> Some st)

(** val forward_init : fstate **)

let forward_init =
  { f_vertices = []; f_edges = []; f_queue = ((O, kNormalSpelling) :: []);
    f_far = O }

type gstate = vmap * emap

(** val x_scan : nat -> evmap -> bool **)

let rec x_scan e = function
| [] -> false
| p :: r ->
  let (xe, _) = p in if Nat.ltb xe e then x_scan e r else Nat.eqb xe e

(** val penalize : smap -> smap **)

let penalize sm =
  map (fun kv -> ((fst kv), { p_type = (snd kv).p_type; p_end =
    (snd kv).p_end; p_cred = { c_base = (snd kv).p_cred.c_base; c_comp =
    (snd kv).p_cred.c_comp; c_pen = (S (snd kv).p_cred.c_pen) } })) sm

(** val y_loop : nat -> nat list -> gstate -> gstate **)

let rec y_loop e ys g =
  match ys with
  | [] -> g
  | joint :: r ->
    if Nat.leb e joint
    then g
    else let g' =
           match nm_find joint (snd g) with
           | Some xev ->
             if x_scan e xev
             then ((nm_set joint kAmbiguousSpelling (fst g)),
                    (nm_set joint
                      (nm_set e (penalize (find_or_empty e xev)) xev) 
                      (snd g)))
             else g
           | None -> g
         in
         y_loop e r g'

(** val check_overlapped : gstate -> nat -> nat -> gstate **)

let check_overlapped g start e =
  match nm_find start (snd g) with
  | Some yev -> y_loop e (map fst yev) g
  | None -> g

(** val prune_spellings : nat -> smap -> smap * nat **)

let prune_spellings last_type sm =
  let kept = filter (fun kv -> Nat.leb (snd kv).p_type last_type) sm in
  (kept,
  (fold_left (fun a kv ->
    if Nat.ltb (snd kv).p_type a then (snd kv).p_type else a) kept
    kInvalidSpelling))

(** val prune_edge : nat -> nat -> nat list -> gstate -> nat -> gstate **)

let prune_edge last_type i good g j =
  let ev = find_or_empty i (snd g) in
  (match nm_find j ev with
   | Some sm ->
     if negb (existsb (Nat.eqb j) good)
     then ((fst g), (nm_set i (nm_erase j ev) (snd g)))
     else let r = prune_spellings last_type sm in
          (match fst r with
           | [] -> ((fst g), (nm_set i (nm_erase j ev) (snd g)))
           | _ :: _ ->
             let g1 = ((fst g), (nm_set i (nm_set j (fst r) ev) (snd g))) in
             if Nat.ltb (snd r) kAbbreviation
             then check_overlapped g1 i j
             else g1)
   | None -> g)

(** val prune_vertex :
    nat -> (gstate * nat list) -> nat -> gstate * nat list **)

let prune_vertex last_type st i =
  let g = fst st in
  (match nm_find i (fst g) with
   | Some _ ->
     let ev0 = find_or_empty i (snd g) in
     let g0 = ((fst g), (nm_set i ev0 (snd g))) in
     let g1 = fold_left (prune_edge last_type i (snd st)) (map fst ev0) g0 in
     let vt =
       match nm_find i (fst g1) with
       | Some t -> t
       | None -> kNormalSpelling
     in
     if Nat.ltb last_type vt
     then (((nm_erase i (fst g1)), (nm_erase i (snd g1))), (snd st))
     else (match find_or_empty i (snd g1) with
           | [] -> (((nm_erase i (fst g1)), (nm_erase i (snd g1))), (snd st))
           | _ :: _ -> (g1, (i :: (snd st))))
   | None -> st)

(** val backward : vmap -> emap -> nat -> gstate **)

let backward vs es far =
  let last_type =
    Nat.max (match nm_find far vs with
             | Some t -> t
             | None -> kNormalSpelling) kFuzzySpelling
  in
  fst
    (fold_left (prune_vertex last_type) (rev (seq O far)) ((vs, es),
      (far :: [])))

(** val kExpandSearchLimit : nat **)

let kExpandSearchLimit =
  S (S (S (S (S (S (S (S (S (S (S (S (S (S (S (S (S (S (S (S (S (S (S (S (S
    (S (S (S (S (S (S (S (S (S (S (S (S (S (S (S (S (S (S (S (S (S (S (S (S
    (S (S (S (S (S (S (S (S (S (S (S (S (S (S (S (S (S (S (S (S (S (S (S (S
    (S (S (S (S (S (S (S (S (S (S (S (S (S (S (S (S (S (S (S (S (S (S (S (S
    (S (S (S (S (S (S (S (S (S (S (S (S (S (S (S (S (S (S (S (S (S (S (S (S
    (S (S (S (S (S (S (S (S (S (S (S (S (S (S (S (S (S (S (S (S (S (S (S (S
    (S (S (S (S (S (S (S (S (S (S (S (S (S (S (S (S (S (S (S (S (S (S (S (S
    (S (S (S (S (S (S (S (S (S (S (S (S (S (S (S (S (S (S (S (S (S (S (S (S
    (S (S (S (S (S (S (S (S (S (S (S (S (S (S (S (S (S (S (S (S (S (S (S (S
    (S (S (S (S (S (S (S (S (S (S (S (S (S (S (S (S (S (S (S (S (S (S (S (S
    (S (S (S (S (S (S (S (S (S (S (S (S (S (S (S (S (S (S (S (S (S (S (S (S
    (S (S (S (S (S (S (S (S (S (S (S (S (S (S (S (S (S (S (S (S (S (S (S (S
    (S (S (S (S (S (S (S (S (S (S (S (S (S (S (S (S (S (S (S (S (S (S (S (S
    (S (S (S (S (S (S (S (S (S (S (S (S (S (S (S (S (S (S (S (S (S (S (S (S
    (S (S (S (S (S (S (S (S (S (S (S (S (S (S (S (S (S (S (S (S (S (S (S (S
    (S (S (S (S (S (S (S (S (S (S (S (S (S (S (S (S (S (S (S (S (S (S (S (S
    (S (S (S (S (S (S (S (S (S (S (S (S (S (S (S (S (S (S (S (S (S (S (S (S
    (S (S (S (S (S (S (S (S (S (S (S (S (S (S (S (S (S (S (S (S (S (S (S (S
    (S (S (S (S (S (S (S (S (S (S (S (S (S (S (S (S (S (S (S (S (S (S (S (S
    (S (S (S (S (S (S (S (S (S (S (S (S (S (S (S (S (S (S (S (S (S (S (S (S
    (S (S (S (S (S (S (S (S (S (S (S (S (S (S (S (S (S (S (S (S (S (S (S (S
    (S (S (S (S (S (S (S
    O)))))))))))))))))))))))))))))))))))))))))))))))))))))))))))))))))))))))))))))))))))))))))))))))))))))))))))))))))))))))))))))))))))))))))))))))))))))))))))))))))))))))))))))))))))))))))))))))))))))))))))))))))))))))))))))))))))))))))))))))))))))))))))))))))))))))))))))))))))))))))))))))))))))))))))))))))))))))))))))))))))))))))))))))))))))))))))))))))))))))))))))))))))))))))))))))))))))))))))))))))))))))))))))))))))))))))))))))))))))))))))))))))))))))))))))))))))))))))))))))))))))))))))))))))))))))))))))))

(** val add_completion : nat -> smap -> desc -> smap **)

let add_completion end_pos sp d =
  if Nat.ltb d.d_type kAbbreviation
  then (match nm_find d.d_sid sp with
        | Some _ -> sp
        | None ->
          nm_set d.d_sid { p_type = kCompletion; p_end = end_pos; p_cred =
            { c_base = d.d_cred; c_comp = (S O); c_pen = O } } sp)
  else sp

(** val completion : prism -> bool -> str -> emap -> nat -> emap * nat **)

let completion p enable_completion inp es far =
  if (&&) enable_completion (Nat.ltb far (length inp))
  then (match expand_search p (skipn far inp) kExpandSearchLimit with
        | [] -> (es, far)
        | p0 :: l ->
          let end_pos = length inp in
          let code_length = sub end_pos far in
          let ev = find_or_empty far es in
          let sp =
            fold_left (fun sp m ->
              if Nat.ltb (fst m) code_length
              then sp
              else fold_left (add_completion end_pos) (snd m) sp) (p0 :: l)
              (find_or_empty end_pos ev)
          in
          (match sp with
           | [] -> ((nm_set far (nm_erase end_pos ev) es), far)
           | _ :: _ -> ((nm_set far (nm_set end_pos sp ev) es), end_pos)))
  else (es, far)

(** val index_add : sindex -> (nat * props) -> sindex **)

let index_add idx kv =
  nm_set (fst kv)
    (match nm_find (fst kv) idx with
     | Some l -> app l ((snd kv) :: [])
     | None -> (snd kv) :: []) idx

(** val transpose_start : sindex -> evmap -> sindex **)

let transpose_start idx ev =
  fold_left (fun idx0 e -> fold_left index_add (snd e) idx0) (rev ev) idx

(** val transpose : emap -> sindices **)

let transpose es =
  fold_left (fun ind s ->
    nm_set (fst s) (transpose_start (find_or_empty (fst s) ind) (snd s)) ind)
    es []

(** val build_with_fuel :
    prism -> sym list -> bool -> bool -> str -> nat -> graph option **)

let build_with_fuel p delims enable_completion strict_spelling inp fuel =
  match inp with
  | [] -> Some empty_graph
  | _ :: _ ->
    (match forward_loop p delims strict_spelling inp fuel forward_init with
     | Some st ->
       let g = backward st.f_vertices st.f_edges st.f_far in
       let c = completion p enable_completion inp (snd g) st.f_far in
       Some { g_input_length = (length inp); g_interpreted_length = (snd c);
       g_vertices = (fst g); g_edges = (fst c); g_indices =
       (transpose (fst c)) }
     | None -> None)

(** val build_fuel : str -> nat **)

let build_fuel inp =
  add (mul (S (length inp)) (S (length inp))) (S (S O))

(** val build_syllable_graph :
    prism -> sym list -> bool -> bool -> str -> graph option **)

let build_syllable_graph p delims enable_completion strict_spelling inp =
  build_with_fuel p delims enable_completion strict_spelling inp
    (build_fuel inp)
