
val negb : bool -> bool

type nat =
| O
| S of nat

val app : 'a1 list -> 'a1 list -> 'a1 list

type comparison =
| Eq
| Lt
| Gt

val eqb : bool -> bool -> bool

val map : ('a1 -> 'a2) -> 'a1 list -> 'a2 list

val flat_map : ('a1 -> 'a2 list) -> 'a1 list -> 'a2 list

val fold_left : ('a1 -> 'a2 -> 'a1) -> 'a2 list -> 'a1 -> 'a1

val existsb : ('a1 -> bool) -> 'a1 list -> bool

val forallb : ('a1 -> bool) -> 'a1 list -> bool

type positive =
| XI of positive
| XO of positive
| XH

type n =
| N0
| Npos of positive

module Pos :
 sig
  val compare_cont : comparison -> positive -> positive -> comparison

  val compare : positive -> positive -> comparison

  val eqb : positive -> positive -> bool
 end

module N :
 sig
  val compare : n -> n -> comparison

  val eqb : n -> n -> bool

  val leb : n -> n -> bool

  val max : n -> n -> n
 end

type ascii =
| Ascii of bool * bool * bool * bool * bool * bool * bool * bool

val eqb0 : ascii -> ascii -> bool

type string =
| EmptyString
| String of ascii * string

val eqb1 : string -> string -> bool

type bstmt =
| SCreate
| SAllocMeta
| SField of string
| STag
| SRetTrue
| SUnknown of string

type kind =
| KTable
| KPrismF
| KReverse

type save_mode =
| InPlace
| TempRename
| SaveUnknown

type build_facts = { bf_prog : (kind -> bstmt list);
                     bf_remove_before : (kind -> bool);
                     bf_create_resizes_existing : bool;
                     bf_alloc_zeroes : bool; bf_open_guarded : bool;
                     bf_save_mode : save_mode; bf_stamp_last : bool }

type mfile = { m_size : n; m_tag : bool; m_fields : string list; m_extent : n }

type eff =
| ETrunc
| ESize of n
| EResize of n
| EZeroMeta
| EStore of string * n
| ETag
| EShrink of n

val blank : n -> mfile

val apply_eff : eff -> mfile option -> mfile option

val run_effs : eff list -> mfile option -> mfile option

val stmt_effs : build_facts -> bool -> n -> (string -> n) -> bstmt -> eff list

val builder_effs :
  build_facts -> kind -> bool -> n -> n -> (string -> n) -> eff list

val start_file : build_facts -> kind -> mfile option -> mfile option

val is_some : 'a1 option -> bool

val kill_effs :
  build_facts -> kind -> mfile option -> n -> n -> (string -> n) -> eff list

type lres =
| LReject
| LAccept
| LCrash

val has : string -> mfile -> bool

val checked_ptrs : kind -> string list

val load : build_facts -> kind -> mfile option -> lres

val fields_then_tag : bstmt list -> bool

val prog_ok : bstmt list -> bool

val prog_fields : bstmt list -> string list

val builder_ok : build_facts -> kind -> bool

val tag_index : eff list -> nat

type 'a yfs = { y_final : 'a list option; y_tmp : 'a list option }

type 'a yeff =
| YOpenTrunc of bool
| YWrite of bool * 'a list
| YRename

val yapp : 'a1 list option -> 'a1 list -> 'a1 list option

val apply_yeff : 'a1 yeff -> 'a1 yfs -> 'a1 yfs

val run_yeffs : 'a1 yeff list -> 'a1 yfs -> 'a1 yfs

val save_effs : save_mode -> 'a1 list list -> 'a1 yeff list

val prog_KTable : bstmt list

val prog_KPrismF : bstmt list

val prog_KReverse : bstmt list

val facts : build_facts
